#!/usr/bin/env python3
"""C09 graph pass over TLC's output: every line <<"OUT", hist, projection, dlog>> is the state a
call sequence `hist` can leave behind (TLC explores every iteration order, so one hist may
appear with several destruction orders).  The property holds on the specification iff every
hist has exactly ONE projection (projection = everything observable except the order)."""
import sys, re, json, hashlib

def analyse(path):
    pat = re.compile(r'^<<"OUT", "(.*)", "(.*)", "(.*)">>$')
    proj = {}     # hist hash -> set(projection hash)
    orders = {}   # hist hash -> set(dlog)
    sample = {}
    n = 0
    with open(path, errors="replace") as f:
        for line in f:
            if not line.startswith('<<"OUT"'):
                continue
            m = pat.match(line.rstrip("\n"))
            if not m:
                continue
            n += 1
            h = hashlib.sha1(m.group(1).encode()).digest()
            proj.setdefault(h, set()).add(hashlib.sha1(m.group(2).encode()).digest())
            orders.setdefault(h, set()).add(m.group(3))
            if len(proj[h]) > 1 and h not in sample:
                sample[h] = m.group(1).replace('\\"', '"')
    nondet = [h for h, s in proj.items() if len(s) > 1]
    multi_order = sum(1 for s in orders.values() if len(s) > 1)
    groups = sum(1 for s in orders.values() if any(o.count(",") >= 1 for o in s))
    return dict(outcomes=n, call_sequences=len(proj), nondeterministic=len(nondet),
                sequences_with_several_orders_printed=multi_order,
                sequences_destroying_a_group_of_2_or_more=groups,
                witnesses=[sample[h] for h in nondet[:5] if h in sample])

if __name__ == "__main__":
    print(json.dumps(analyse(sys.argv[1]), indent=1))
