"""Driver library for /verif/check: builds the harness against /repo's working tree, runs TLC
on the specification (exhaustive + simulation), replays TLC-generated and random scripts on
the real library, has TLC judge the recorded traces (Monitor) and test faithfulness (Conform),
and writes the evidence file."""
import os, sys, json, re, time, hashlib, subprocess, shutil, random

VERIF = os.path.dirname(os.path.dirname(os.path.abspath(__file__)))
SPEC = os.path.join(VERIF, "spec")
WORK = os.path.join(VERIF, "work")
CACHE = os.path.join(VERIF, "cache")
HARNESS = os.path.join(VERIF, "harness")
REPLAYS = os.path.join(VERIF, "replays")
EVID = os.path.join(VERIF, "evidence")
REPO = "/repo"
JAVA_OPTS = "-Xss1g"
JAVA_OPTS_TRACE = "-Xss1g -Xmx5g"      # trace validation: many TLC processes run side by side
NCPU = os.cpu_count() or 8


class ToolError(Exception):
    pass


def log(msg):
    print("[check] " + msg, flush=True)


def sh(cmd, timeout, cwd=None, env=None, out=None):
    e = dict(os.environ)
    e["CARGO_NET_OFFLINE"] = "true"
    if env:
        e.update(env)
    t0 = time.time()
    try:
        if out:
            with open(out, "w") as f:
                p = subprocess.run(cmd, cwd=cwd, env=e, stdout=f, stderr=subprocess.STDOUT, timeout=timeout)
            return p.returncode, None, time.time() - t0
        p = subprocess.run(cmd, cwd=cwd, env=e, stdout=subprocess.PIPE, stderr=subprocess.STDOUT, timeout=timeout)
        return p.returncode, p.stdout.decode(errors="replace"), time.time() - t0
    except subprocess.TimeoutExpired:
        raise ToolError("timeout after %ss: %s" % (timeout, " ".join(cmd)[:200]))


# ---------------------------------------------------------------------------
# harness

def build_harness(asan=False):
    rc, out, dt = sh(["cargo", "build", "--release"], 900, cwd=HARNESS)
    if rc != 0:
        sys.stdout.write(out[-4000:])
        raise ToolError("harness build failed (cargo build in %s)" % HARNESS)
    log("harness built against %s working tree in %.1fs" % (REPO, dt))
    return os.path.join(HARNESS, "target", "release", "cactus-harness")


HARNESS_ENV = {}


def harness(binpath, args, timeout=600):
    """Runs the harness; a crash of the process (abort, signal) is data, not a tool error."""
    rc, out, dt = sh([binpath] + args, timeout, env=HARNESS_ENV)
    return rc, out, dt


# ---------------------------------------------------------------------------
# TLC on the specification

def file_hash(paths, extra=""):
    h = hashlib.sha256()
    for p in paths:
        with open(p, "rb") as f:
            h.update(f.read())
    h.update(extra.encode())
    return h.hexdigest()[:20]


SPEC_FILES = ["CactusRef.tla", "MC.tla"]


def mc_cfg(nobj, ops, caps, variant, menu, invs, emit=0, simlen=0, view=True, constraint=None, extra=""):
    if invs and "MC_Progress" not in invs:
        invs = list(invs) + ["MC_Progress"]          # every call returns (no stuck library frame)
    s = "CONSTANTS\n  NObj = %d\n  Ops <- %s\n  Caps <- %s\n  Variant <- %s\n  DtorMenu <- %s\n" % (nobj, ops, caps, variant, menu)
    s += "  EmitCover = %d\n  SimLen = %d\n  EmitOut = %d\n  TrackStd = %d\n" % (
        emit, simlen, 1 if "EMITOUT" in extra else 0, 1 if "TRACKSTD" in extra else 0)
    extra = extra.replace("EMITOUT", "").replace("TRACKSTD", "")
    s += "INIT MCInit\nNEXT MCNext\nCHECK_DEADLOCK FALSE\n"
    if view:
        s += "VIEW View\n"
    if constraint:
        s += "CONSTRAINT %s\n" % constraint
    for i in invs:
        s += "INVARIANT %s\n" % i
    s += extra
    return s


def parse_tlc_stats(text):
    st = {}
    m = re.findall(r"(\d[\d,]*) states generated, (\d[\d,]*) distinct states found, (\d[\d,]*) states left on queue", text)
    if m:
        g, d, q = m[-1]
        st["generated"] = int(g.replace(",", ""))
        st["distinct"] = int(d.replace(",", ""))
        st["queue"] = int(q.replace(",", ""))
    m = re.search(r"The depth of the complete state graph search is (\d+)", text)
    if m:
        st["depth"] = int(m.group(1))
    # per-action coverage: TLC reports evaluation counts per expression location; every count is
    # attributed to the definition (Step* / Op*) whose line range contains it
    # "taken" = evaluations of the state-committing expressions (Commit/Done/...) inside it
    cov = {}
    defs = spec_definitions()
    starts = [d[0] for d in defs]
    src = spec_lines()
    import bisect
    seen_loc = set()
    for mm in re.finditer(r"^\s*\|*line (\d+), col (\d+) to line (\d+), col (\d+) of module CactusRef: (\d+)", text, re.M):
        ln, c0, cnt = int(mm.group(1)), int(mm.group(2)), int(mm.group(5))
        loc = (ln, c0, int(mm.group(3)), int(mm.group(4)))
        if loc in seen_loc:
            continue
        seen_loc.add(loc)
        i = bisect.bisect_right(starts, ln) - 1
        if i < 0:
            continue
        name = defs[i][1]
        cov.setdefault(name, [0])
        # TLC reports the argument expressions of Commit(..)/Done(..), not the call itself: a
        # location on a source line that contains the committing call counts as "taken"
        frag = src[ln - 1] if ln - 1 < len(src) else ""
        if re.search(r"\b(Commit|CommitHX|Done|DoClone|DoUpgrade)\(", frag):
            cov[name][0] = max(cov[name][0], cnt)
    st["coverage"] = {k: v for k, v in cov.items() if k.startswith(("Step", "Op"))}
    st["completed"] = "Model checking completed" in text
    st["errors"] = re.findall(r"^Error: (.*)$", text, re.M)[:5]
    return st


_DEFS = None


def spec_definitions():
    """[(first line, name)] of the top-level definitions of CactusRef.tla, sorted by line."""
    global _DEFS
    if _DEFS is None:
        _DEFS = []
        for i, l in enumerate(open(os.path.join(SPEC, "CactusRef.tla")), 1):
            m = re.match(r"^([A-Za-z_][A-Za-z0-9_]*)(\(.*\))?\s*==", l)
            if m:
                _DEFS.append((i, m.group(1)))
    return _DEFS


_SRC = None


def spec_lines():
    global _SRC
    if _SRC is None:
        _SRC = open(os.path.join(SPEC, "CactusRef.tla")).read().splitlines()
    return _SRC


# actions that must have been taken in a family's exhaustive run, or the property was not exercised
REQUIRED_ACTIONS = {
    "core": ["StepDrop", "StepOrphan", "StepBust", "StepMarkO", "StepRelease", "StepUninit", "StepPostValue", "OpAdopt", "OpUnadopt"],
    "weak": ["StepMarkO", "OpUpgrade", "OpWeakDrop", "OpStoreWeak"],
    "dtor10": ["StepValueScript", "StepMarkO"],
    "dtor16": ["StepValueScript", "StepMarkO", "OpCloneStored"],
    "dtor05": ["StepValueScript", "StepMarkO", "OpUpgradeStored"],
    "panic": ["StepValuePanic", "StepUnwindSkip", "StepMarkO"],
    "cpanic": ["StepValuePanic", "StepUnwindSkip", "OpMakeMutX", "OpTryUnwrap", "OpDropDetached"],
    "consume": ["OpTryUnwrap", "OpMakeMutX", "OpGetMut", "OpDecStrong", "OpDropDetached", "StepMarkO"],
    "stale": ["StepMarkO", "OpTake", "OpDropStored"],
    "elide": ["StepMarkO", "OpTake", "OpDropStored"],
    "order": ["StepMarkO", "OpAdoptStore", "OpTakeUnadopt"],
    "std": ["OpTryUnwrap", "OpMakeMutX", "StepUninit"],
}


def tlc_exhaustive(name, cfgtext, timeout, workers=8, use_cache=True):
    """TLC on MC.tla with the given cfg. The result depends on the specification only (not on
    /repo), so it is cached by the content hash of spec + cfg."""
    key = file_hash([os.path.join(SPEC, f) for f in SPEC_FILES], cfgtext + "exh")
    cdir = os.path.join(CACHE, "mc_" + name + "_" + key)
    outp = os.path.join(cdir, "tlc.out")
    if use_cache and os.path.exists(os.path.join(cdir, "done")):
        text = open(outp, errors="replace").read()
        st = parse_tlc_stats(text)
        st["cached"] = True
        st["cex"] = extract_scripts(outp, "CEX")
        st["aborts"] = [js for _, js in extract_scripts(outp, "ABORT")]
        dn = json.load(open(os.path.join(cdir, "done")))
        st["wall_s"] = dn["wall_s"]
        if "order_pass" in dn:
            st["order_pass"] = dn["order_pass"]
        return st
    os.makedirs(cdir, exist_ok=True)
    cfgp = os.path.join(SPEC, "_gen_%s_%s.cfg" % (name, key))
    with open(cfgp, "w") as f:
        f.write(cfgtext)
    meta = os.path.join(WORK, "tlc_" + name + "_" + key)
    try:
        rc, _, dt = sh(["tlc", "-workers", str(workers), "-coverage", "1", "-metadir", meta, "-cleanup",
                        "-noGenerateSpecTE", "-config", os.path.basename(cfgp), "MC.tla"],
                       timeout, cwd=SPEC, env={"JAVA_TOOL_OPTIONS": JAVA_OPTS}, out=outp)
    finally:
        os.remove(cfgp)
        shutil.rmtree(meta, ignore_errors=True)
    text = open(outp, errors="replace").read()
    st = parse_tlc_stats(text)
    st["cached"] = False
    st["wall_s"] = dt
    st["cex"] = extract_scripts(outp, "CEX")
    st["aborts"] = [js for _, js in extract_scripts(outp, "ABORT")]
    if not st.get("completed") and not st["cex"]:
        raise ToolError("TLC did not complete on %s: %s (see %s)" % (name, st.get("errors"), outp))
    dn = {"wall_s": dt}
    if "EmitOut = 1" in cfgtext:
        import order_pass
        st["order_pass"] = order_pass.analyse(outp)
        dn["order_pass"] = st["order_pass"]
        # the OUT lines are bulky: keep only what later runs need
        keep = [l for l in open(outp, errors="replace") if not l.startswith('<<"OUT"')]
        with open(outp, "w") as f:
            f.writelines(keep)
    with open(os.path.join(cdir, "done"), "w") as f:
        json.dump(dn, f)
    return st


def tlc_simulate(name, cfgtext, num, depth, seed, timeout, workers=4):
    """TLC simulation mode: random behaviours of the specification, printed as scripts."""
    key = file_hash([os.path.join(SPEC, f) for f in SPEC_FILES], cfgtext + "sim%d_%d_%d" % (num, depth, seed))
    cdir = os.path.join(CACHE, "sim_" + name + "_" + key)
    scr = os.path.join(cdir, "scripts.ndjson")
    if os.path.exists(os.path.join(cdir, "done")):
        return scr, json.load(open(os.path.join(cdir, "done")))
    os.makedirs(cdir, exist_ok=True)
    cfgp = os.path.join(SPEC, "_gen_%s_%s.cfg" % (name, key))
    with open(cfgp, "w") as f:
        f.write(cfgtext)
    outp = os.path.join(cdir, "tlc.out")
    meta = os.path.join(WORK, "sim_" + name + "_" + key)
    per = max(1, num // workers)
    try:
        rc, _, dt = sh(["tlc", "-workers", str(workers), "-simulate", "num=%d" % per, "-depth", str(depth),
                        "-seed", str(seed), "-metadir", meta, "-cleanup", "-noGenerateSpecTE",
                        "-config", os.path.basename(cfgp), "MC.tla"],
                       timeout, cwd=SPEC, env={"JAVA_TOOL_OPTIONS": JAVA_OPTS}, out=outp)
    finally:
        os.remove(cfgp)
        shutil.rmtree(meta, ignore_errors=True)
    rows = extract_scripts(outp, "SCRIPT")
    random.Random(seed).shuffle(rows)
    rows = rows[:num]
    with open(scr, "w") as f:
        for _, js in rows:
            f.write(js + "\n")
    text = open(outp, errors="replace").read()
    if "Error:" in text and not rows:
        raise ToolError("TLC simulation failed on %s (see %s)" % (name, outp))
    os.remove(outp)
    info = {"scripts": len(rows), "wall_s": dt}
    with open(os.path.join(cdir, "done"), "w") as f:
        json.dump(info, f)
    return scr, info


def extract_scripts(path, tag):
    seen = set()
    out = []
    pat = re.compile(r'^<<"%s", (?:"(C\d+)", )?"(.*)">>$' % tag)
    with open(path, errors="replace") as f:
        for line in f:
            if not line.startswith('<<"' + tag):
                continue
            m = pat.match(line.rstrip("\n"))
            if not m:
                continue
            js = m.group(2).replace('\\"', '"').replace("\\\\", "\\")
            if js in seen:
                continue
            seen.add(js)
            if '"Edge"' in js:
                js = expand_edges(js)
            out.append((m.group(1), js))
    return out


def expand_edges(js):
    """`Edge(a, o)` of the graph family = CloneRoot(o) ; AdoptStore(a, o) on the real library."""
    ops = []
    for o in json.loads(js):
        if o["op"] == "Edge":
            ops.append(dict(op="CloneRoot", a=o["b"], b=0, d=o["d"]))
            ops.append(dict(op="AdoptStore", a=o["a"], b=o["b"], d=o["d"]))
        else:
            ops.append(o)
    return json.dumps(ops, separators=(",", ":"))


# ---------------------------------------------------------------------------
# trace validation (TLC on CactusRefTrace.tla)

def trace_cfg(mode, nobj, variant, props, menu="MenuAny"):
    s = "CONSTANTS\n  NObj = %d\n  Ops <- OpsAll\n  Caps <- CapsBig\n  Variant <- %s\n  DtorMenu <- %s\n" % (nobj, variant, menu)
    s += "  Props <- MCProps\n"
    if mode == "mon":
        s += "INIT MonInit\nNEXT MonNext\nPOSTCONDITION MonAccepted\n"
    else:
        s += "INIT ConfInit\nNEXT ConfNext\nCONSTRAINT ConfProgress\nPOSTCONDITION ConfAccepted\n"
    s += "CHECK_DEADLOCK FALSE\n"
    return s


def start_trace_tlc(mode, trace, nobj, variant, props, tag):
    """Starts TLC on one trace file; returns a handle to be collected with finish_trace_tlc."""
    d = os.path.join(WORK, "tv_%s_%s" % (mode, tag))
    shutil.rmtree(d, ignore_errors=True)
    os.makedirs(d)
    # the universe of object ids is what the trace mentions (a library that lost a count may
    # make make_mut allocate where the script did not plan an allocation)
    try:
        with open(trace, "rb") as f:
            ids = re.findall(rb'"id":(\d+)', f.read())
        nobj = max([nobj] + [int(x) for x in set(ids)])
    except OSError:
        pass
    # a tiny per-run module so that the property set is a definition, not a cfg literal
    mod = "TV_%s_%s" % (mode, re.sub(r"\W", "_", tag))
    with open(os.path.join(SPEC, mod + ".tla"), "w") as f:
        f.write("---- MODULE %s ----\nEXTENDS MCTrace\nMCProps == {%s}\n====\n" % (mod, ", ".join('"%s"' % p for p in props)))
    with open(os.path.join(SPEC, mod + ".cfg"), "w") as f:
        f.write(trace_cfg(mode, nobj, variant, props))
    env = dict(os.environ)
    env["TRACE"] = trace
    env["JAVA_TOOL_OPTIONS"] = JAVA_OPTS_TRACE
    outp = os.path.join(d, "tlc.out")
    fo = open(outp, "w")
    p = subprocess.Popen(["tlc", "-workers", "1", "-metadir", os.path.join(d, "meta"), "-cleanup", "-noGenerateSpecTE",
                          "-config", mod + ".cfg", mod + ".tla"], cwd=SPEC, env=env, stdout=fo, stderr=subprocess.STDOUT)
    return dict(p=p, fo=fo, out=outp, mod=mod, d=d, mode=mode, trace=trace, t0=time.time())


def finish_trace_tlc(h, timeout):
    try:
        h["p"].wait(timeout=timeout)
    except subprocess.TimeoutExpired:
        h["p"].kill()
        raise ToolError("trace validation timed out (%s)" % h["out"])
    finally:
        h["fo"].close()
        for ext in (".tla", ".cfg"):
            try:
                os.remove(os.path.join(SPEC, h["mod"] + ext))
            except OSError:
                pass
    text = open(h["out"], errors="replace").read()
    res = dict(wall_s=time.time() - h["t0"], out=h["out"])
    m = re.findall(r"(\d[\d,]*) states generated, ", text)
    res["lines"] = int(m[-1].replace(",", "")) if m else 0
    if h["mode"] == "mon":
        m = re.search(r'^<<\s*"VIOL",\s*"(.*)"\s*>>$', text, re.M)   # (tolerates TLC's wrapped tuple layout)
        if not m or "MONITOR-STUCK" in text or "Model checking completed" not in text:
            raise ToolError("Monitor did not consume the whole trace %s (see %s)" % (h["trace"], h["out"]))
        res["viol"] = json.loads(m.group(1).replace('\\"', '"'))
    else:
        m = re.search(r'^<<\s*"UNMATCHED",\s*(\d+),\s*"(.*)"\s*>>$', text, re.M)
        if m:
            res["unmatched_line"] = int(m.group(1))
            res["accepted"] = False
        elif "Model checking completed. No error has been found." in text:
            res["accepted"] = True
        else:
            raise ToolError("Conform run failed on %s (see %s)" % (h["trace"], h["out"]))
    shutil.rmtree(os.path.join(h["d"], "meta"), ignore_errors=True)
    return res


def script_of_line(trace, line):
    """Script number of the 1-based trace line."""
    n = -1
    with open(trace) as f:
        for i, l in enumerate(f, 1):
            if l.startswith('{"k":"reset"'):
                n = json.loads(l)["script"]
            if i >= line:
                break
    return n


# ---------------------------------------------------------------------------
# property table
#
# A *family* is a configuration of the specification (enabled calls, destructor menu, scope
# switches) together with the harness' random-driver profile.  All properties that use a
# family share its (cached) exhaustive TLC run, in which every invariant of the family is
# checked.

FAMILIES = {
    "core": dict(ops="OpsCore", menu="MenuPlain", profile="core",
                 invs=["TypeOK", "MC_C01", "MC_C02", "MC_C03", "MC_C04", "MC_C06", "MC_C08", "MC_C14", "MC_C15"],
                 quick=dict(mc=[dict(nobj=2, caps="Caps2")],
                            sim=[dict(nobj=2, caps="Caps2", num=500, simlen=25), dict(nobj=3, caps="Caps3", num=500, simlen=30),
                                 # graphs of 4-5 objects built from recorded edges only (asymmetric shapes)
                                 dict(nobj=4, caps="CapsB", ops="OpsBuild", num=500, simlen=36),
                                 dict(nobj=5, caps="CapsB", ops="OpsBuild", num=300, simlen=44)]),
                 thorough=dict(mc=[dict(nobj=2, caps="CapsL"), dict(nobj=3, caps="CapsT")],
                               sim=[dict(nobj=3, caps="Caps3", num=1500, simlen=40), dict(nobj=4, caps="Caps3", num=1500, simlen=50),
                                    dict(nobj=4, caps="CapsB", ops="OpsBuild", num=1500, simlen=40),
                                    dict(nobj=5, caps="CapsB", ops="OpsBuild", num=1500, simlen=50),
                                    dict(nobj=6, caps="CapsB", ops="OpsBuild", num=3000, simlen=60)])),
    "weak": dict(ops="OpsWeakQ", menu="MenuPlain", profile="weak",
                 invs=["TypeOK", "MC_C01", "MC_C02", "MC_C03", "MC_C04", "MC_C05", "MC_C06", "MC_C08"],
                 quick=dict(mc=[dict(nobj=2, caps="CapsW")],
                            sim=[dict(nobj=2, caps="Caps2", num=500, simlen=25, ops="OpsWeak"), dict(nobj=3, caps="Caps3", num=500, simlen=30, ops="OpsWeak")]),
                 thorough=dict(mc=[dict(nobj=2, caps="CapsW", ops="OpsWeak"), dict(nobj=3, caps="CapsQ", ops="OpsWeak3")],
                               sim=[dict(nobj=3, caps="Caps3", num=1500, simlen=40, ops="OpsWeak"), dict(nobj=4, caps="Caps3", num=1500, simlen=50, ops="OpsWeak")])),
    "dtor10": dict(ops="OpsDtor", menu="MenuC10", profile="dtor10",
                   invs=["MC_C10", "MC_C16"],
                   quick=dict(mc=[dict(nobj=2, caps="CapsQ", menu="MenuC10Q")],
                              sim=[dict(nobj=3, caps="Caps3", num=600, simlen=30)]),
                   thorough=dict(mc=[dict(nobj=2, caps="CapsQ")],
                                 sim=[dict(nobj=3, caps="Caps3", num=1500, simlen=40), dict(nobj=4, caps="Caps3", num=1000, simlen=50)])),
    "dtor16": dict(ops="OpsDtor", menu="MenuC16", profile="dtor16",
                   invs=["MC_C16", "MC_C02", "MC_C06"],
                   quick=dict(mc=[dict(nobj=2, caps="CapsQ")],
                              sim=[dict(nobj=3, caps="Caps3", num=600, simlen=30)]),
                   thorough=dict(mc=[dict(nobj=2, caps="CapsM"), dict(nobj=3, caps="CapsQ", ops="OpsDtorT")],
                                 sim=[dict(nobj=3, caps="Caps3", num=1500, simlen=40), dict(nobj=4, caps="Caps3", num=1000, simlen=50)])),
    "dtor05": dict(ops="OpsDtor", menu="MenuC05", profile="dtor05",
                   invs=["MC_C05", "MC_C02", "MC_C06"],
                   quick=dict(mc=[dict(nobj=2, caps="CapsQ")],
                              sim=[dict(nobj=3, caps="Caps3", num=600, simlen=30)]),
                   thorough=dict(mc=[dict(nobj=2, caps="CapsM"), dict(nobj=3, caps="CapsQ", ops="OpsDtorW")],
                                 sim=[dict(nobj=3, caps="Caps3", num=1500, simlen=40), dict(nobj=4, caps="Caps3", num=1000, simlen=50)])),
    "panic": dict(ops="OpsDtor", menu="MenuPanic", profile="panic",
                  invs=["MC_C11"],
                  quick=dict(mc=[dict(nobj=2, caps="CapsQ")],
                             sim=[dict(nobj=3, caps="Caps3", num=600, simlen=30)]),
                  thorough=dict(mc=[dict(nobj=2, caps="CapsM"), dict(nobj=3, caps="CapsQ", ops="OpsDtorQ")],
                                sim=[dict(nobj=3, caps="Caps3", num=1500, simlen=40), dict(nobj=4, caps="Caps3", num=1000, simlen=50)])),
    "cpanic": dict(ops="OpsCPanic", menu="MenuPanic", profile="cpanic",
                   invs=["MC_C11"],
                   quick=dict(mc=[dict(nobj=2, caps="CapsQ")],
                              sim=[dict(nobj=3, caps="Caps3", num=400, simlen=30)]),
                   thorough=dict(mc=[dict(nobj=2, caps="CapsM"), dict(nobj=3, caps="CapsQ", ops="OpsCPanicT")],
                                 sim=[dict(nobj=3, caps="Caps3", num=1200, simlen=40), dict(nobj=4, caps="Caps3", num=1500, simlen=50)])),
    "consume": dict(ops="OpsConsume", menu="MenuPlain", profile="consume",
                    invs=["MC_C12", "MC_C01", "MC_C03"],
                    quick=dict(mc=[dict(nobj=2, caps="CapsCE")],
                               sim=[dict(nobj=3, caps="CapsCE3", num=600, simlen=30)]),
                    thorough=dict(mc=[dict(nobj=2, caps="CapsCE"), dict(nobj=3, caps="CapsQ", ops="OpsConsumeQ")],
                                  sim=[dict(nobj=3, caps="CapsCE3", num=1500, simlen=40), dict(nobj=4, caps="CapsCE3", num=1000, simlen=50)])),
    "stale": dict(ops="OpsCore", menu="MenuPlain", profile="stale",
                  invs=["MC_C13x", "MC_C06", "MC_C08", "MC_C04"],
                  quick=dict(mc=[dict(nobj=2, caps="CapsS")],
                             sim=[dict(nobj=2, caps="CapsS3", num=500, simlen=25), dict(nobj=3, caps="CapsS", num=500, simlen=30)]),
                  thorough=dict(mc=[dict(nobj=2, caps="CapsS3"), dict(nobj=3, caps="CapsS", ops="OpsCoreT")],
                                sim=[dict(nobj=3, caps="CapsS3", num=1500, simlen=40), dict(nobj=4, caps="CapsS", num=1000, simlen=50)])),
}

FAMILIES["elide"] = dict(
    ops="OpsCore", menu="MenuPlain", profile="elide",
    invs=["MC_C13x", "MC_C06", "MC_C08", "MC_C04"],
    quick=dict(mc=[dict(nobj=2, caps="CapsE")],
               sim=[dict(nobj=2, caps="CapsE3", num=500, simlen=25), dict(nobj=3, caps="CapsE", num=500, simlen=30)]),
    thorough=dict(mc=[dict(nobj=2, caps="CapsE3"), dict(nobj=3, caps="CapsE", ops="OpsCoreT")],
                  sim=[dict(nobj=3, caps="CapsE3", num=1500, simlen=40), dict(nobj=4, caps="CapsE", num=1000, simlen=50)]))

FAMILIES["order"] = dict(
    ops="OpsOrder", menu="MenuPlain", profile="order", emit_out=True,
    invs=["MC_C01", "MC_C03"],
    quick=dict(mc=[dict(nobj=2, caps="CapsO")],
               sim=[dict(nobj=3, caps="Caps3", num=300, simlen=30), dict(nobj=4, caps="Caps3", num=300, simlen=40)]),
    thorough=dict(mc=[dict(nobj=2, caps="CapsL"), dict(nobj=3, caps="CapsO3")],
                  sim=[dict(nobj=3, caps="Caps3", num=2000, simlen=40), dict(nobj=4, caps="Caps3", num=1000, simlen=50),
                       dict(nobj=5, caps="Caps3", num=1000, simlen=60)]))

FAMILIES["std"] = dict(
    ops="OpsStd", menu="MenuPlain", profile="std", track_std=True, env={"HARNESS_STD": "1"},
    invs=["MC_C07", "MC_C01", "MC_C02", "MC_C04", "MC_C05", "MC_C06"],
    quick=dict(mc=[dict(nobj=2, caps="CapsQ", ops="OpsStdQ")],
               sim=[dict(nobj=3, caps="Caps3", num=500, simlen=30, ops="OpsStdM"), dict(nobj=4, caps="Caps3", num=300, simlen=40, ops="OpsStdM")]),
    thorough=dict(mc=[dict(nobj=2, caps="CapsM"), dict(nobj=3, caps="CapsQ", ops="OpsStdT")],
                  sim=[dict(nobj=3, caps="Caps3", num=1500, simlen=40, ops="OpsStdM"), dict(nobj=4, caps="Caps3", num=1000, simlen=50, ops="OpsStdM"),
                       dict(nobj=5, caps="Caps3", num=2000, simlen=60, ops="OpsStdM")]))

# every adoption graph on N objects (each ordered pair recorded at most once/twice), every
# subset and order of dropping the outside handles: the shape quantifier of C01/C03
FAMILIES["graph"] = dict(
    ops="OpsGraph", menu="MenuPlain", profile="core", append_teardown=True,
    invs=["MC_C01", "MC_C02", "MC_C03", "MC_C06", "MC_C08"],
    # simulation: TLC builds a random graph (all objects, then k edges); the driver appends the
    # drops of all outside handles in a seeded random order
    quick=dict(mc=[dict(nobj=3, caps="CapsG")],
               sim=[dict(nobj=4, caps="CapsG", num=500, simlen=9), dict(nobj=5, caps="CapsG", num=400, simlen=12),
                    dict(nobj=6, caps="CapsG", num=200, simlen=15)]),
    thorough=dict(mc=[dict(nobj=3, caps="CapsG2"), dict(nobj=4, caps="CapsG7")],
                  sim=[dict(nobj=4, caps="CapsG", num=8000, simlen=10), dict(nobj=5, caps="CapsG", num=8000, simlen=13),
                       dict(nobj=6, caps="CapsG", num=6000, simlen=16), dict(nobj=8, caps="CapsG", num=3000, simlen=22)]))
REQUIRED_ACTIONS["graph"] = ["StepMarkO", "OpEdge", "StepOrphan"]

TIERS = {
    "quick": dict(drive=dict(scripts=240, length=60, nobj=5), chunks=6, mc_timeout=900),
    "thorough": dict(drive=dict(scripts=1000, length=150, nobj=7), chunks=14, mc_timeout=7200),
}

PROPS = {
    "C01": dict(fams=["core", "graph"], monitor=["C01"], scale=True, level="model_checking"),
    "C02": dict(fams=["core", "weak"], monitor=["C02"], level="model_checking"),
    "C03": dict(fams=["core", "graph"], monitor=["C03"], scale=True, level="model_checking"),
    "C04": dict(fams=["weak", "consume"], monitor=["C04"], level="model_checking"),
    "C05": dict(fams=["weak", "dtor05", "consume"], monitor=["C05"], level="model_checking"),
    "C06": dict(fams=["core", "stale"], monitor=["C06"], level="model_checking"),
    "C08": dict(fams=["core", "stale"], monitor=["C08"], level="model_checking"),
    "C07": dict(fams=["std"], monitor=["C07"], level="translation_validation"),
    "C09": dict(fams=["order"], monitor=["C09"], layouts=dict(quick=4, thorough=16), level="model_checking"),
    "C10": dict(fams=["dtor10"], monitor=["C10"], level="model_checking"),
    "C11": dict(fams=["panic", "cpanic"], monitor=["C11"], level="model_checking"),
    "C12": dict(fams=["consume"], monitor=["C12"], level="model_checking"),
    "C13": dict(fams=["elide", "stale", "consume"], monitor=["C13x", "C13"], known_prop="C13", level="model_checking"),
    "C14": dict(fams=["core"], monitor=["C14"], level="model_checking"),
    "C15": dict(fams=["core"], monitor=["C15"], scale=True, level="model_checking"),
    "C16": dict(fams=["dtor16"], monitor=["C16"], child=True, level="model_checking"),
}

VARIANT = "VFixed"


def load_known():
    p = os.path.join(VERIF, "KNOWN_FINDINGS.json")
    if not os.path.exists(p):
        return []
    return json.load(open(p)).get("findings", [])


def fmt_script(ops):
    return " ".join("%s(%d,%d)" % (o["op"], o["a"], o["b"]) for o in ops)


def run_check(prop, tier, seed, replay):
    t0 = time.time()
    if prop not in PROPS:
        raise ToolError("unknown or unclaimed property %s" % prop)
    P = PROPS[prop]
    T = TIERS[tier]
    wd = os.path.join(WORK, prop)
    shutil.rmtree(wd, ignore_errors=True)
    os.makedirs(wd)
    os.makedirs(REPLAYS, exist_ok=True)
    os.makedirs(EVID, exist_ok=True)
    binp = build_harness()
    HARNESS_ENV.clear()
    for fam in P["fams"]:
        HARNESS_ENV.update(FAMILIES[fam].get("env", {}))

    script_files = []   # (label, path, nobj)
    spec_stats = []
    drive_traces = []
    drive_crashes = []
    if replay:
        script_files.append(("replay", os.path.abspath(replay), max_obj(replay)))
    else:
        for fam in P["fams"]:
            F = FAMILIES[fam]
            FT = F[tier]
            # 1. the specification side: exhaustive model checking of the family
            for i, c in enumerate(FT["mc"]):
                ops = c.get("ops", F["ops"])
                menu = c.get("menu", F["menu"])
                cfg = mc_cfg(c["nobj"], ops, c["caps"], VARIANT, menu, F["invs"],
                             extra=("EMITOUT" if F.get("emit_out") else "") + ("TRACKSTD" if F.get("track_std") else ""))
                st = tlc_exhaustive("%s_%s_%d" % (fam, tier, i), cfg, T["mc_timeout"], workers=min(12, NCPU))
                if F.get("emit_out"):
                    op_ = st.get("order_pass")
                    log("spec: order pass: %d call sequences, %d with more than one outcome, %d destroy a group of >= 2" % (
                        op_["call_sequences"], op_["nondeterministic"], op_["sequences_destroying_a_group_of_2_or_more"]))
                    if op_["nondeterministic"]:
                        pth = os.path.join(wd, "orderwit_%s_%d.ndjson" % (fam, i))
                        with open(pth, "w") as f:
                            for js in op_["witnesses"]:
                                f.write(js + "\n")
                        script_files.append(("spec-order-witness-%s-%d" % (fam, i), pth, c["nobj"]))
                st["cfg"] = dict(family=fam, nobj=c["nobj"], caps=c["caps"], ops=ops, menu=menu, variant=VARIANT,
                                 invariants=F["invs"])
                spec_stats.append(st)
                # reduced op sets (secondary configurations) are only required to exercise the collector
                req = [a for a in REQUIRED_ACTIONS.get(fam, []) if a.startswith("Step") or "ops" not in c]
                missing = [a for a in req if st.get("coverage", {}).get(a, [0])[0] == 0]
                if missing and not st["cex"]:
                    raise ToolError("vacuous exhaustive run for family %s: actions never taken: %s" % (fam, missing))
                log("spec: %s nobj=%d caps=%s: %d states generated, %d distinct, depth %s%s" % (
                    fam, c["nobj"], c["caps"], st.get("generated", 0), st.get("distinct", 0), st.get("depth"),
                    " (cached)" if st["cached"] else " in %.0fs" % st["wall_s"]))
                if P.get("child") and st.get("aborts"):
                    ab = list(st["aborts"])
                    random.Random(seed).shuffle(ab)
                    pth = os.path.join(wd, "specaborts_%s_%d.ndjson" % (fam, i))
                    with open(pth, "w") as f:
                        for js in ab[: (60 if tier == "quick" else 600)]:
                            f.write(js + "\n")
                    script_files.append(("spec-abort-%s-%d" % (fam, i), pth, c["nobj"]))
                if st["cex"]:
                    # the specification itself violates an invariant of this family: the call
                    # sequences are replayed on the real code and judged there (DESIGN 5.3)
                    pth = os.path.join(wd, "speccex_%s_%d.ndjson" % (fam, i))
                    with open(pth, "w") as f:
                        for _, js in st["cex"][:20]:
                            f.write(js + "\n")
                    script_files.append(("spec-counterexample-%s-%d" % (fam, i), pth, c["nobj"]))
                    log("spec: TLC reports counterexamples for %s in family %s" % (sorted(set(p for p, _ in st["cex"])), fam))
            # 2. scripts generated by TLC from the specification (simulation mode)
            for i, c in enumerate(FT["sim"]):
                cfg = mc_cfg(c["nobj"], c.get("ops", F["ops"]), c["caps"], VARIANT, c.get("menu", F["menu"]), [],
                             simlen=c["simlen"], view=False, constraint="SimStop")
                scr, info = tlc_simulate("%s_%s_%d" % (fam, tier, i), cfg, c["num"], 40 * c["simlen"], seed, 1800)
                log("spec: %s simulation nobj=%d: %d scripts of %d calls" % (fam, c["nobj"], info["scripts"], c["simlen"]))
                if F.get("append_teardown"):
                    rr = random.Random(seed * 7919 + i)
                    scr2 = os.path.join(wd, "teardown_%s_%d.ndjson" % (fam, i))
                    with open(scr2, "w") as fo:
                        for l in open(scr):
                            ops_ = json.loads(l)
                            ids = [o["a"] for o in ops_ if o["op"] == "New"]
                            for rep_ in range(2):
                                order = ids[:]
                                rr.shuffle(order)
                                ops_ += [dict(op="DropRoot", a=x, b=0, d=dict(op="none", x=0, y=0)) for x in order]
                            fo.write(json.dumps(ops_, separators=(",", ":")) + "\n")
                    scr = scr2
                script_files.append(("tlc-sim-%s-%d-%d" % (fam, c["nobj"], i), scr, c["nobj"]))
            # 3. random histories generated by the harness itself (implementation -> specification)
            dv = T["drive"]
            if tier == "thorough" and P.get("layouts"):
                # every history is replayed under N layouts: keep the volume (and the size of one
                # trace file) in line with the other checks
                dv = dict(dv, scripts=max(14, dv["scripts"] // P["layouts"][tier]))
            per_fam = max(1, dv["scripts"] // len(P["fams"]))
            k = max(1, T["chunks"] // len(P["fams"]), (per_fam * dv["length"]) // 8000)
            for ci in range(k):
                sp = os.path.join(wd, "drive_%s_%d.ndjson" % (fam, ci))
                tp = os.path.join(wd, "drive_%s_%d.trace" % (fam, ci))
                n = max(1, dv["scripts"] // (k * len(P["fams"])))
                rc, out, dt = harness(binp, ["drive", str(seed * 1000 + ci), str(n), str(dv["length"]),
                                             str(dv["nobj"]), F["profile"], sp, tp] + ([str(P["layouts"][tier])] if P.get("layouts") else []))
                if rc != 0:
                    # killed by a signal, or a Rust panic escaped (exit 101): the library broke the
                    # process; the history in progress was written to <scripts>.cur before the call
                    cur = sp + ".cur"
                    if (rc < 0 or rc == 101) and os.path.exists(cur):
                        drive_crashes.append(dict(script=open(cur).read().strip(), signal=(-rc if rc < 0 else 101), label="drive-" + fam))
                        log("the library crashed the harness in drive mode (rc=%s)" % rc)
                        continue
                    raise ToolError("harness failed in drive mode (rc=%s): %s" % (rc, (out or "")[-500:]))
                drive_traces.append(dict(label="drive-" + fam, scripts=sp, trace=tp, nobj=dv["nobj"], n=n))
        # 3b. deterministic mid-size shapes (9-12 objects; see tools/shapes.py)
        if "core" in P["fams"]:
            import shapes
            pth = os.path.join(wd, "shapes.ndjson")
            with open(pth, "w") as f:
                for sc in shapes.generate(seed, 18 if tier == "quick" else 150):
                    f.write(json.dumps(sc) + "\n")
            script_files.append(("shapes", pth, 12))
            if prop in ("C03", "C08", "C14") or tier == "thorough":
                # (32-41 objects make the judge slow: quick tier only where tables matter most)
                pth = os.path.join(wd, "wideshapes.ndjson")
                with open(pth, "w") as f:
                    for sc in shapes.wide_unlink(seed):
                        f.write(json.dumps(sc) + "\n")
                script_files.append(("wideshapes", pth, 41))
        # 3b'. long repetitive histories on three objects (tools/longhist.py)
        if "core" in P["fams"]:
            import longhist
            pth = os.path.join(wd, "longhist.ndjson")
            with open(pth, "w") as f:
                for sc in longhist.generate():
                    f.write(json.dumps(sc) + "\n")
            script_files.append(("longhist", pth, 3))
        # 3c. systematic scenario templates for the consuming APIs (tools/scenarios.py)
        if "consume" in P["fams"]:
            import scenarios
            pth = os.path.join(wd, "scenarios.ndjson")
            with open(pth, "w") as f:
                for sc in scenarios.generate():
                    f.write(json.dumps(sc) + "\n")
            script_files.append(("scenarios", pth, 4))
        if "cpanic" in P["fams"]:
            import scenarios
            pth = os.path.join(wd, "scenarios_panic.ndjson")
            with open(pth, "w") as f:
                for k in (1, 2):
                    for sc in scenarios.generate(panic_obj=k):
                        f.write(json.dumps(sc) + "\n")
            script_files.append(("scenarios-panic", pth, 4))
        # 3d. systematic forgotten-unadopt templates (tools/elide_scen.py), several heap layouts each
        if "elide" in P["fams"] and not os.environ.get("VERIF_SKIP_TEMPLATES"):   # (knob used to test 6a alone)
            import elide_scen
            pth = os.path.join(wd, "elidescen.ndjson")
            with open(pth, "w") as f:
                for sc in elide_scen.generate():
                    f.write(json.dumps(sc) + "\n")
            script_files.append(("elidescen", pth, 5, 6 if tier == "quick" else 12))
        # 3e. the small-payload program (zero-sized, 1-byte, odd-sized, over-aligned payloads through
        # every constructor, raw round trips, releases by a last Weak): run once by every check
        pth = os.path.join(wd, "smallpayload.ndjson")
        mk_ = lambda name, a=0, b=0: dict(op=name, a=a, b=b, d=dict(op="none", x=0, y=0))
        with open(pth, "w") as f:
            f.write(json.dumps([mk_("New", 1), mk_("Misc", 1), mk_("Downgrade", 1), mk_("Misc", 1), mk_("DropRoot", 1),
                                mk_("Misc", 1), mk_("WeakDrop", 1)]) + "\n")
        script_files.append(("smallpayload", pth, 2))
        # 4. committed witnesses of repaired / known defects
        fdir = os.path.join(VERIF, "findings")
        if os.path.isdir(fdir):
            pth = os.path.join(wd, "witnesses.ndjson")
            with open(pth, "w") as f:
                for fn in sorted(os.listdir(fdir)):
                    if fn.endswith(".ndjson"):
                        f.write(open(os.path.join(fdir, fn)).read())
            script_files.append(("witnesses", pth, 4))

    # 5. replay everything on the real code
    extra_viol = []
    crashes = list(drive_crashes)
    traces = []
    nscripts = 0
    samples = []
    for label, pth, nobj, *lay in script_files:
        # heap layouts: per property, or per script file (4th element); a violating history
        # that is replayed is tried under several layouts (table iteration order is address dependent)
        nlay = lay[0] if lay else (P["layouts"][tier] if P.get("layouts") else (8 if replay else 0))
        lines = [l for l in open(pth).read().splitlines() if l.strip()]
        if not lines:
            continue
        nscripts += len(lines)
        samples.append(dict(source=label, script=fmt_script(json.loads(lines[min(3, len(lines) - 1)]))))
        calls = sum(l.count('"op"') // 2 for l in lines[:20]) / max(1, min(20, len(lines)))   # calls per script (each op has a nested d.op)
        k = max(1, min(T["chunks"], len(lines) // 60 + 1), int(len(lines) * calls * max(1, nlay)) // 8000)
        if nobj > 20:
            k = len(lines)        # a large universe makes the judge slow per line: one TLC per script
        for ci in range(k):
            part = lines[ci::k]
            sp = os.path.join(wd, "%s_%d.ndjson" % (label, ci))
            with open(sp, "w") as f:
                f.write("\n".join(part) + "\n")
            tp = os.path.join(wd, "%s_%d.trace" % (label, ci))
            while True:
                rc, out, dt = harness(binp, ["replay", sp, tp] + ([str(nlay)] if nlay else []))
                if rc == 0:
                    break
                if rc > 0 and rc != 101:
                    raise ToolError("harness failed replaying %s (rc=%s): %s" % (sp, rc, (out or "")[-500:]))
                if rc == 101:
                    rc = -101     # a Rust panic escaped the harness: the library broke it
                # the process was killed by a signal inside the library: that is data.  The
                # script that crashed is the first one that is missing from the trace file.
                done = 0
                if os.path.exists(tp):
                    done = sum(1 for l in open(tp) if l.startswith('{"k":"reset"'))
                if done >= len(part):
                    raise ToolError("harness died after the last script of %s (rc=%s)" % (sp, rc))
                crashes.append(dict(script=part[done], signal=-rc, label=label))
                log("the library crashed the harness (signal %d) on a script from %s" % (-rc, label))
                part = part[:done] + part[done + 1:]
                if not part or len(crashes) > 20:
                    break
                with open(sp, "w") as f:
                    f.write("\n".join(part) + "\n")
            if part and rc == 0:
                traces.append(dict(label=label, scripts=sp, trace=tp, nobj=nobj, n=len(part)))
    if drive_traces:
        traces.extend(drive_traces)
        nscripts += sum(t["n"] for t in drive_traces)
        l0 = open(drive_traces[0]["scripts"]).readline()
        samples.append(dict(source=drive_traces[0]["label"], script=fmt_script(json.loads(l0))[:600]))

    # 6. TLC judges the traces (Monitor) and tests faithfulness (Conform)
    viols = []
    drift = []
    nlines = 0
    maxpar = max(2, min(NCPU - 4, 10))
    jobs = []
    for i, t in enumerate(traces):
        jobs.append(("mon", t, i))
        jobs.append(("conf", t, i))
    running = []

    def collect(h, mode, t):
        nonlocal nlines
        r = finish_trace_tlc(h, 3600)
        if mode == "mon":
            nlines += r["lines"]
            for v in r["viol"]:
                if v["prop"] in P["monitor"]:
                    viols.append(dict(trace=t, script=v["script"], line=v["line"], prop=v["prop"]))
        else:
            if not r["accepted"]:
                drift.append(dict(trace=t, line=r["unmatched_line"]))

    for mode, t, i in jobs:
        while len(running) >= maxpar:
            h, m2, t2 = running.pop(0)
            collect(h, m2, t2)
        h = start_trace_tlc(mode, t["trace"], t["nobj"], VARIANT, P["monitor"], "%s_%s_%d" % (prop, mode, i))
        running.append((h, mode, t))
    for h, m2, t2 in running:
        collect(h, m2, t2)

    # 6a. drift-directed search.  Conform rejected a trace but the Monitor saw no violation: the
    # library's internal state left the specification's at a known call of a known history.
    # That is not a verdict -- but it says where to look: the histories in which it happened are
    # cut at several points, continued with a stress tail (fresh objects, a clone/drop of every
    # handle -- each runs a trace -- upgrades, teardown in random orders) and replayed under
    # several heap layouts; the Monitor judges those traces like any other.  Nothing here runs
    # on a tree that conforms, and only the Monitor's verdicts count.
    strict_now = [p for p in P["monitor"] if p != P.get("known_prop")]
    if drift and not replay and not any(v["prop"] in strict_now for v in viols):
        rr = random.Random(seed + 17)
        amp = []
        for d in drift[:6]:
            cur = None
            with open(d["trace"]["trace"]) as f:
                for i, l in enumerate(f, 1):
                    if i > d["line"]:
                        break
                    if l.startswith('{"k":"reset"'):
                        cur = json.loads(l)["script"]
            if cur is None:
                continue
            sl = open(d["trace"]["scripts"]).read().splitlines()
            if cur >= len(sl):
                continue
            ops_ = json.loads(sl[cur])
            mk = lambda name, a=0, b=0: dict(op=name, a=a, b=b, d=dict(op="none", x=0, y=0))
            cuts = sorted(set([len(ops_)] + [max(1, len(ops_) * j // 6) for j in range(1, 6)]))
            for cut in cuts:
                pre = ops_[:cut]
                ids = [o["a"] for o in pre if o["op"] == "New"]
                nxt = len(ids) + sum(1 for o in pre if o["op"].startswith("MakeMut")) + 1
                for rep_ in range(3):
                    tail = [mk("New", nxt), mk("New", nxt + 1)]
                    order = ids[:]
                    rr.shuffle(order)
                    for x in order:
                        tail += [mk("CloneRoot", x), mk("DropRoot", x), mk("Upgrade", x)]
                    for rnd in range(4):
                        rr.shuffle(order)
                        tail += [mk("DropRoot", x) for x in order]
                        if rnd == 1:
                            tail += [mk("CloneRoot", nxt), mk("DropRoot", nxt), mk("Upgrade", order[0])]
                    tail += [mk("DropDetached", x) for x in order] + [mk("WeakDrop", x) for x in order] * 2
                    tail += [mk("DropRoot", nxt), mk("DropRoot", nxt + 1)]
                    amp.append((pre + tail, d["trace"]["nobj"] + 2))
        if amp:
            sp = os.path.join(wd, "driftamp.ndjson")
            tp = os.path.join(wd, "driftamp.trace")
            with open(sp, "w") as f:
                for ops_, _ in amp:
                    f.write(json.dumps(ops_, separators=(",", ":")) + "\n")
            rc, out, dt = harness(binp, ["replay", sp, tp, "4"])
            if rc == 0:
                t = dict(label="drift-directed", scripts=sp, trace=tp, nobj=max(n for _, n in amp), n=len(amp))
                h = start_trace_tlc("mon", tp, t["nobj"], VARIANT, P["monitor"], "%s_mon_driftamp" % prop)
                collect(h, "mon", t)
                nscripts += len(amp)
                log("drift-directed search: %d continuations of %d drifting histories judged" % (len(amp), min(6, len(drift))))
            elif rc < 0 or rc == 101:
                done = sum(1 for l in open(tp) if l.startswith('{"k":"reset"')) // 4 if os.path.exists(tp) else 0
                if done < len(amp):
                    crashes.append(dict(script=json.dumps(amp[done][0], separators=(",", ":")), signal=(-rc if rc < 0 else 101), label="drift-directed"))

    # 6b. child mode (C16): every script in which the harness predicted a process abort is run
    # again in a child process that really makes the call; the parent appends how it ended
    nchild = 0
    if P.get("child") and not replay:
        cands = []
        for t in traces:
            cur = None
            sl = None
            with open(t["trace"]) as f:
                for l in f:
                    if l.startswith('{"k":"reset"'):
                        cur = json.loads(l)["script"]
                    elif '"ret":"abort"' in l and cur is not None:
                        if sl is None:
                            sl = open(t["scripts"]).read().splitlines()
                        cands.append((sl[cur], t["nobj"]))
                        cur = None
        random.Random(seed).shuffle(cands)
        cands = cands[: (40 if tier == "quick" else 400)]
        ctraces = []
        for i, (js, nobj) in enumerate(cands):
            sp = os.path.join(wd, "child_%d.ndjson" % i)
            tp = os.path.join(wd, "child_%d.trace" % i)
            with open(sp, "w") as f:
                f.write(js + "\n")
            rc, out, dt = harness(binp, ["child", sp, tp], timeout=120)
            with open(tp, "a") as f:
                if rc < 0:
                    f.write('{"k":"died","sig":%d}\n' % (-rc))
            ctraces.append((sp, tp, nobj))
        nchild = len(ctraces)
        # one concatenated trace (script numbers = positions)
        if ctraces:
            allsp = os.path.join(wd, "children.ndjson")
            alltp = os.path.join(wd, "children.trace")
            with open(allsp, "w") as fs, open(alltp, "w") as ft:
                for i, (sp, tp, nobj) in enumerate(ctraces):
                    fs.write(open(sp).read())
                    for l in open(tp):
                        if l.startswith('{"k":"reset"'):
                            l = '{"k":"reset","script":%d,"layout":0}\n' % i
                        ft.write(l)
            t = dict(label="child", scripts=allsp, trace=alltp, nobj=max(n for _, _, n in ctraces), n=len(ctraces))
            for mode in ("mon", "conf"):
                h = start_trace_tlc(mode, alltp, t["nobj"], VARIANT, P["monitor"], "%s_%s_child" % (prop, mode))
                collect(h, mode, t)
            nscripts += len(ctraces)
            log("child mode: %d scripts with a predicted abort re-run with the real call" % len(ctraces))

    # 6c. scale runs (C15): large groups on a small fixed stack, judged by TLC (ScaleCheck.tla)
    scale_info = None
    if P.get("scale") and not replay:
        scale_info = run_scale(binp, wd, tier, prop)
        for b in scale_info["bad"]:
            rp = os.path.join(REPLAYS, "%s_scale_%s_%d.json" % (prop, b["shape"], b["n"]))
            with open(rp, "w") as f:
                json.dump(b, f)
            extra_viol.append(dict(replay=rp, script="scale run %s" % json.dumps(b), source="scale"))

    # 7. verdict.  A property with a known finding has two monitors: the strict one (its
    # violations are instances of the finding when the finding's cause predicate explains
    # them) and the one with the finding excused (its violations are new).
    kprop = P.get("known_prop")
    strict = [p for p in P["monitor"] if p != kprop] if kprop else P["monitor"]
    known = [k for k in load_known() if k.get("property") == prop and k.get("status") == "known"]
    out_viol = []
    known_hits = {}
    seen_scripts = set()
    for v in viols:
        lines = open(v["trace"]["scripts"]).read().splitlines()
        js = lines[v["script"]]
        if v["prop"] not in strict:
            # instance of the known finding (explained by its cause predicate)
            known_hits.setdefault(v["prop"], []).append(fmt_script(json.loads(js)))
            continue
        if js in seen_scripts:
            continue
        seen_scripts.add(js)
        hsh = hashlib.sha256(js.encode()).hexdigest()[:12]
        rp = os.path.join(REPLAYS, "%s_%s.ndjson" % (prop, hsh))
        with open(rp, "w") as f:
            f.write(js + "\n")
        out_viol.append(dict(replay=rp, script=fmt_script(json.loads(js)), source=v["trace"]["label"]))
    # scripts that violate the strict monitor as well are reported once, as violations
    if kprop:
        if not known and known_hits:
            # no finding is listed: every instance is a violation
            for hs in known_hits.values():
                for h in hs[:5]:
                    out_viol.append(dict(replay="(see work dir)", script=h, source="unlisted-finding"))
        for k in known:
            n = sum(len(v) for v in known_hits.values())
            print("KNOWN-FINDING: property=%s %s (%s; %d instance(s) in this run, e.g. %s)" % (
                prop, k["what"], k.get("site", ""), n, (list(known_hits.values())[0][0][:200] if n else "witness not triggered")))
    out_viol.extend(extra_viol)
    for c in crashes:
        js = c["script"]
        hsh = hashlib.sha256(js.encode()).hexdigest()[:12]
        rp = os.path.join(REPLAYS, "%s_%s.ndjson" % (prop, hsh))
        with open(rp, "w") as f:
            f.write(js + "\n")
        out_viol.append(dict(replay=rp, script=fmt_script(json.loads(js)) + "  [process killed by signal %d inside the library]" % c["signal"],
                             source=c["label"]))
    for v in out_viol[:10]:
        print("VIOLATION property=%s replay=%s" % (prop, v["replay"]))
        print("  history: %s" % v["script"])
    for d in drift[:3]:
        print("MODEL-DRIFT trace=%s first-unmatched-line=%d" % (d["trace"]["trace"], d["line"]))

    ev = dict(
        property_id=prop, tier=tier, seed=seed, level=P["level"],
        coverage=dict(
            states=sum(s.get("distinct", 0) for s in spec_stats) or 1,
            transitions=sum(s.get("generated", 0) for s in spec_stats) or 1,
            traces_validated_against_impl=nscripts,
            trace_lines_judged=nlines,
            samples=samples or [dict(source="none")],
            exhaustive=bool(spec_stats) and all(s.get("completed") for s in spec_stats),
            spec_runs=[dict(cfg=s["cfg"], distinct=s.get("distinct"), generated=s.get("generated"), depth=s.get("depth"),
                            cached=s["cached"], tlc_wall_s=round(s["wall_s"], 1),
                            spec_counterexamples=sorted(set(p for p, _ in s["cex"])),
                            order_pass=s.get("order_pass"),
                            coverage_by_action={k: v[0] for k, v in s.get("coverage", {}).items()})
                       for s in spec_stats],
            drift=len(drift),
            known_finding_instances=sum(len(v) for v in known_hits.values()),
            child_process_runs=nchild,
            programs=nscripts,
            disagreements_checked=count_std_compared(traces) if P["level"] == "translation_validation" else 0,
            scale_runs=(scale_info or {}).get("runs"),
            library_crashes=len(crashes),
            rule="TLC model-checks each family's configuration exhaustively (all call histories within the caps, all iteration "
                 "orders); TLC-generated call sequences (simulation mode) and random histories are executed on the real library "
                 "and every recorded trace is judged by TLC with the specification's own definition of the property (Monitor) "
                 "and matched against the specification's actions (Conform)",
        ),
        assumptions=[
            "small-scope: exhaustive within the stated object/handle caps only",
            "hooks (cfg cactusref_verif) observe every counter/table access of the library",
            "the harness maps each script op to the public API call listed in DESIGN.md appendix C",
        ],
        wall_s=round(time.time() - t0, 1),
        violations=len(out_viol),
    )
    with open(os.path.join(EVID, prop + ".json"), "w") as f:
        json.dump(ev, f, indent=1)
    log("%s %s: %d scripts, %d trace lines judged, %d violations, drift %d, %.0fs" % (
        prop, tier, nscripts, nlines, len(out_viol), len(drift), time.time() - t0))
    return 1 if out_viol else 0


SCALE_SHAPES = {
    "quick": ["ring:1000", "ring:100000", "ring:300000", "chords:100000", "wheel:5000", "wheel:60000", "clique:300",
              "ring+held:50000", "chords+held:50000", "wheel+held:20000", "clique+held:200",
              "ring+near:50000", "chords+near:50000", "wheel+near:20000", "ring+near:20",
              "wheel+same:20000", "clique+same:200", "chords+same:50000", "wheel+same:150",
              "chain:3000", "chain2ring:5000", "star:20000", "star+same:20000", "star+same:200", "star+held:20000"],
    "thorough": ["ring:1000", "ring:300000", "ring:1000000", "chords:500000", "wheel:5000", "wheel:60000", "wheel:200000",
                 "clique:300", "clique:1000", "ring+held:300000", "chords+held:300000", "wheel+held:100000", "clique+held:700",
                 "ring+near:300000", "chords+near:300000", "wheel+near:100000", "ring+near:20", "ring+near:100",
                 "wheel+same:100000", "clique+same:700", "chords+same:300000", "wheel+same:150", "wheel+same:1000",
                 "chain:3000", "chain:10000", "chain2ring:5000", "chain2ring:30000",
                 "star:200000", "star+same:200000", "star+same:200", "star+same:3000", "star+held:100000"],
}


def run_scale(binp, wd, tier, prop="C15"):
    """Builds large adopted groups with the real library on a 128 KiB stack; TLC evaluates the
    bounds of ScaleCheck.tla on the logged counters. A run that kills the process (stack
    overflow) is data: it is recorded as a scale_died line."""
    outp = os.path.join(wd, "scale.ndjson")
    lines = []
    for shape in SCALE_SHAPES[tier]:
        one = os.path.join(wd, "scale_one.ndjson")
        # (acyclic chains are destroyed recursively by Rust itself: they get a large stack)
        rc, out, dt = harness(binp, ["scale", one, "65536" if shape.startswith("chain") else "128", shape], timeout=1800)
        got = [json.loads(l) for l in open(one)] if os.path.exists(one) else []
        if rc != 0 and not any(g["k"] == "scale" for g in got):
            shp, n = shape.split(":")
            got.append(dict(k="scale_died", shape=shp, n=int(n), sig=-rc))
        lines.extend(got)
    # linearity as a self-scaling ratio: CPU time per adoption of the 60000-wheel (one hub with a
    # very wide fan-out, worklist of 6*10^4 entries) relative to the 5000-wheel of the same run
    # (x10, integer).  Measured here: about 1.3-1.6 on the unchanged tree, about 8 with a
    # quadratic worklist; the bound in ScaleCheck.tla is 4.
    base = [g for g in lines if g["k"] == "scale" and g["shape"] == "wheel" and g["n"] == 5000]
    for g in lines:
        if g["k"] == "scale":
            g["ratio_x10"] = 10
            if base and base[0]["cpu_us"] > 0 and g["links"] > 0 and g["shape"] == "wheel" and g["n"] == 60000:
                per = g["cpu_us"] / g["links"]
                per0 = base[0]["cpu_us"] / base[0]["links"]
                g["ratio_x10"] = int(10 * per / per0)
    with open(outp, "w") as f:
        for g in lines:
            f.write(json.dumps(g) + "\n")
    env = {"TRACE": outp, "SCALEPROP": prop, "JAVA_TOOL_OPTIONS": JAVA_OPTS}
    rc, out, dt = sh(["tlc", "-workers", "1", "-metadir", os.path.join(wd, "scale_meta"), "-cleanup", "-noGenerateSpecTE",
                      "-config", "ScaleCheck.cfg", "ScaleCheck.tla"], 600, cwd=SPEC, env=env)
    m = re.search(r'<<\s*"SCALE-BAD",\s*"(.*?)"\s*>>', out, re.S)   # (TLC wraps long tuples)
    if not m or "Model checking completed" not in out:
        raise ToolError("ScaleCheck did not complete: %s" % out[-600:])
    badidx = json.loads(m.group(1))
    bad = [lines[i - 1] for i in badidx]
    runs = [g for g in lines if g["k"] == "scale"]
    log("scale: %d runs up to N=%d on a 128 KiB stack, %d outside the bounds" % (len(runs), max([g["n"] for g in runs] or [0]), len(bad)))
    return dict(runs=runs, bad=bad)


def count_std_compared(traces):
    """calls whose results were compared between cactusref, the real std::rc and StdRc.tla"""
    n = 0
    for t in traces:
        with open(t["trace"]) as f:
            for l in f:
                if '"stdon":true' in l:
                    n += 1
    return n


def max_obj(path):
    n = 1
    for l in open(path):
        if l.strip():
            n = max(n, sum(1 for o in json.loads(l) if o["op"] == "New"))
    return max(n, 2)
