#!/usr/bin/env python3
"""Systematic templates for the forgotten-unadopt space (C13/C02/C08 code side).

Two objects t = 1 and y = 2 (optionally a third, z = 3, closing a ring) adopt each other with
every small combination of multiplicities; then some of the stored handles are taken out again
WITHOUT unadopt (the documented "may leak" misuse), some with, and the taken handles are
dropped; then one side loses all its outside handles; fresh unrelated objects are created and
kept; the survivor is cloned / dropped (which runs a reachability trace over whatever records
are left) and everything is torn down.

The iteration order of a link table depends on the addresses, so the driver replays each of
these under several heap layouts (vlib: per-file layout count)."""
import json, itertools


def op(name, a=0, b=0):
    return dict(op=name, a=a, b=b, d=dict(op="none", x=0, y=0))


def edge(a, b, times):
    out = []
    for _ in range(times):
        out += [op("CloneRoot", b), op("AdoptStore", a, b)]
    return out


def take(a, b, elided, unadopted):
    out = []
    for _ in range(elided):
        out += [op("Take", a, b), op("DropRoot", b)]
    for _ in range(unadopted):
        out += [op("TakeUnadopt", a, b), op("DropRoot", b)]
    return out


def tail(first, second, others):
    ops = [op("DropRoot", first)] * 3
    ops += [op("New", 4), op("New", 5)]                       # fresh, unrelated, kept
    ops += [op("CloneRoot", second), op("DropRoot", second)]  # a trace from the survivor
    ops += [op("Downgrade", second), op("Upgrade", second), op("DropRoot", second)]
    ops += [op("CloneRoot", 4), op("DropRoot", 4), op("CloneRoot", 5), op("DropRoot", 5)]
    for o in others:
        ops += [op("DropRoot", o)] * 2
    ops += [op("DropRoot", second)] * 3
    ops += [op("Upgrade", second), op("WeakDrop", second)]
    ops += [op("DropRoot", 4), op("DropRoot", 5), op("DropRoot", first)]
    return ops


def generate():
    out = []
    seen = set()
    for m12, m21 in itertools.product((0, 1, 2), (0, 1, 2)):
        if m12 == 0 and m21 == 0:
            continue
        for e12, e21 in itertools.product(range(m12 + 1), range(m21 + 1)):
            for u12, u21 in itertools.product({0, m12 - e12}, {0, m21 - e21}):
                if e12 + e21 == 0:
                    continue          # nothing forgotten: covered by the other families
                for first, second in ((1, 2), (2, 1)):
                    ops = [op("New", 1), op("New", 2), op("New", 3)]
                    ops += edge(1, 2, m12) + edge(2, 1, m21)
                    ops += take(1, 2, e12, u12) + take(2, 1, e21, u21)
                    ops += tail(first, second, [3])
                    key = json.dumps(ops)
                    if key not in seen:
                        seen.add(key)
                        out.append(ops)
    # a ring 1 -> 2 -> 3 -> 1 with one doubled edge, the forgotten unadopt on each edge in turn
    for dbl in (0, 1, 2):
        for forgot in (0, 1, 2):
            for k in (1, 2):
                ring = [(1, 2), (2, 3), (3, 1)]
                ops = [op("New", 1), op("New", 2), op("New", 3)]
                for i, (a, b) in enumerate(ring):
                    ops += edge(a, b, 2 if i == dbl else 1)
                a, b = ring[forgot]
                have = 2 if forgot == dbl else 1
                if k > have:
                    continue
                ops += take(a, b, k, 0)
                for first in (1, 2, 3):
                    rest = [x for x in (1, 2, 3) if x != first]
                    out.append(ops + tail(first, rest[0], [rest[1]]))
    return out


if __name__ == "__main__":
    import sys
    g = generate()
    if len(sys.argv) > 1:
        with open(sys.argv[1], "w") as f:
            for s in g:
                f.write(json.dumps(s) + "\n")
    print(len(g), sum(len(s) for s in g))
