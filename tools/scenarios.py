#!/usr/bin/env python3
"""Systematic scenario templates for the handle-consuming APIs (C12/C04/C05/C07 code side):
every combination of
   how the object is linked   (never / adopted then fully unadopted / adopts a peer / adopted by a
                               peer / mutual / self through a clone / member of a 3-ring)
 x which Weak handles exist   (none / one outside / two outside / one stored in its own value /
                               one stored in the peer)
 x the consuming call         (try_unwrap / make_mut / make_mut with a non-sharing Clone / get_mut /
                               into_raw+decrement / into_raw+from_raw)
followed by a teardown that uses the peers afterwards.  Calls that are not enabled in a given
combination are skipped by the harness (nothing is logged for them)."""
import json, itertools


def op(name, a=0, b=0):
    return dict(op=name, a=a, b=b, d=dict(op="none", x=0, y=0))


LINKS = ["never", "adopted_then_unadopted", "adopts_peer", "adopted_by_peer", "mutual", "self_clone", "ring3"]
WEAKS = ["none", "one_outside", "two_outside", "stored_in_self", "stored_in_peer"]
CALLS = ["TryUnwrap", "MakeMut", "MakeMutS", "MakeMutP", "GetMut", "raw_dec", "raw_roundtrip"]


def build(link, weak, call):
    ops = [op("New", 1), op("New", 2), op("New", 3)]          # 1 = the object, 2 = peer, 3 = second peer
    o, p, q = 1, 2, 3
    def edge(a, b):
        return [op("CloneRoot", b), op("AdoptStore", a, b)]
    if link == "adopted_then_unadopted":
        ops += edge(o, p) + [op("TakeUnadopt", o, p), op("DropRoot", p)]
        ops += edge(p, o) + [op("TakeUnadopt", p, o), op("DropRoot", o)]
    elif link == "adopts_peer":
        ops += edge(o, p)
    elif link == "adopted_by_peer":
        ops += edge(p, o)
    elif link == "mutual":
        ops += edge(o, p) + edge(p, o)
    elif link == "self_clone":
        ops += edge(o, o)
    elif link == "ring3":
        ops += edge(o, p) + edge(p, q) + edge(q, o)
    if weak in ("one_outside", "two_outside"):
        ops.append(op("Downgrade", o))
    if weak == "two_outside":
        ops.append(op("Downgrade", o))
    if weak == "stored_in_self":
        ops += [op("Downgrade", o), op("StoreWeak", o, o)]
    if weak == "stored_in_peer":
        ops += [op("Downgrade", o), op("StoreWeak", p, o)]
    # make the handle we consume the only outside strong handle of o where the call needs it
    # (handles stored in peers remain): drop surplus roots of o
    ops += [op("DropRoot", o)] * 0
    if call == "raw_dec":
        ops += [op("IntoRaw", o), op("DecStrong", o)]
    elif call == "raw_roundtrip":
        ops += [op("IntoRaw", o), op("IncStrong", o), op("FromRaw", o), op("FromRaw", o), op("DropRoot", o)]
    else:
        ops.append(op(call, o))
    # afterwards: use the peers and tear everything down, including whatever the call created (id 4)
    ops += [op("Upgrade", o), op("CloneRoot", p), op("DropRoot", p), op("DropDetached", o)]
    for x in (4, p, q, o, 4, p, q, o):
        ops.append(op("DropRoot", x))
    ops += [op("Upgrade", o), op("WeakDrop", o), op("WeakDrop", o), op("WeakDrop", 4)]
    return ops


def generate(panic_obj=0):
    """panic_obj = k: the destructor of object k panics (C11: consuming calls that release a
    handle whose group then dies with a panicking destructor)"""
    out = []
    for sc in _generate():
        if panic_obj:
            sc = [dict(o, d=dict(op="Panic", x=0, y=0)) if o["op"] == "New" and o["a"] == panic_obj else o for o in sc]
        out.append(sc)
    return out


def _generate():
    out = []
    for link, weak, call in itertools.product(LINKS, WEAKS, CALLS):
        out.append(build(link, weak, call))
        # variant: the peers' outside handles are dropped BEFORE the call (the object is then the
        # only way to reach them)
        ops = build(link, weak, call)
        i = next(k for k, x in enumerate(ops) if x["op"] in CALLS or x["op"] == "IntoRaw")
        out.append(ops[:i] + [op("DropRoot", 2), op("DropRoot", 3)] + ops[i:])
    # the small-payload program (zero-sized, 1 byte, odd-sized array, over-aligned payloads; the
    # last owner of several of them is a Weak): constructors, raw round trips, releases
    out.append([op("New", 1), op("Misc", 1), op("Downgrade", 1), op("Misc", 1), op("DropRoot", 1), op("Misc", 1), op("WeakDrop", 1)])
    return out


if __name__ == "__main__":
    import sys
    with open(sys.argv[1], "w") as f:
        for s in generate():
            f.write(json.dumps(s) + "\n")
    print(len(generate()))
