#!/bin/bash
# batch_mut.sh <prop> <k> [<extra props>...]: confirm + try one mutation from /tmp/mut_<prop>/out/<k>
P=$1; K=$2; shift; shift
D=/tmp/mut_$P/out/$K
echo "######## ${P}_$K  $(python3 -c "import json;print(json.load(open('$D/meta.json'))['summary'][:200])" 2>/dev/null)"
/verif/tools/confirm_mutation.sh $D ${P}_$K 2>&1 | tail -3
/verif/tools/try_mutation.sh $D/patch.diff $P "$@" 2>&1 | grep -E "^==|VIOLATION|MODEL-DRIFT|TOOL|quick:" | head -12
