#!/usr/bin/env python3
# keep.py <name> <outdir> <triallog>... : copy a confirmed mutation into /verif/seeded/<name>
import sys, json, os, re, shutil
name, out = sys.argv[1], sys.argv[2]; logs = sys.argv[3:]
d = f"/verif/seeded/{name}"; os.makedirs(d, exist_ok=True)
for f in ("patch.diff", "demo.rs"): shutil.copy(os.path.join(out, f), d)
m = json.load(open(os.path.join(out, "meta.json")))
m["breaks"] = m.get("property"); m["round"] = 8
if "ran" in m: m["agent_ran"] = m.pop("ran")
txt = "".join(open(l).read() for l in logs)
c = re.findall(r"CONFIRM .*?demo_without=\[.*?\]", txt, re.S)
m["confirmed_by_me"] = "tools/confirm_mutation.sh in a scratch worktree of /repo HEAD: " + (c[-1] if c else "?")
res = {}
for l in logs:
    t = open(l).read()
    for p, rc in re.findall(r"^== \S+ (C\d\d) rc=(\d)", t, re.M): res.setdefault(p, []).append(int(rc))
m["quick_checks_run"] = res
m["caught_by_quick_tier"] = sorted(p for p, r in res.items() if r[-1] == 1)
json.dump(m, open(os.path.join(d, "meta.json"), "w"), indent=1)
print(name, m["breaks"], m["caught_by_quick_tier"], res)
