#!/usr/bin/env python3
"""Demonstrates that the specification is bound to the implementation (DESIGN.md 4.5):
a recorded trace is accepted; the same trace with ONE logged field corrupted, or ONE line
removed, is rejected by Conform, and the Monitor names the property the corruption breaks.
Exit 0 when every expectation holds."""
import os, sys, json, copy
sys.path.insert(0, os.path.dirname(os.path.abspath(__file__)))
import vlib

SCRIPT = [  # a 3-ring with an outside handle, collected by the last drop
    ("New", 1, 0), ("New", 2, 0), ("New", 3, 0), ("CloneRoot", 1, 0), ("CloneRoot", 2, 0), ("CloneRoot", 3, 0),
    ("AdoptStore", 1, 2), ("AdoptStore", 2, 3), ("AdoptStore", 3, 1), ("Downgrade", 2, 0),
    ("DropRoot", 2, 0), ("DropRoot", 3, 0), ("Upgrade", 2, 0), ("DropRoot", 2, 0), ("DropRoot", 1, 0), ("Upgrade", 2, 0),
]


def run(trace, props):
    hm = vlib.start_trace_tlc("mon", trace, 3, vlib.VARIANT, props, "selftest_m")
    rm = vlib.finish_trace_tlc(hm, 300)
    hc = vlib.start_trace_tlc("conf", trace, 3, vlib.VARIANT, props, "selftest_c")
    rc = vlib.finish_trace_tlc(hc, 300)
    return sorted(set(v["prop"] for v in rm["viol"])), rc["accepted"]


def main():
    wd = os.path.join(vlib.WORK, "selftest")
    os.makedirs(wd, exist_ok=True)
    binp = vlib.build_harness()
    sp = os.path.join(wd, "s.ndjson")
    with open(sp, "w") as f:
        f.write(json.dumps([dict(op=o, a=a, b=b, d=dict(op="none", x=0, y=0)) for o, a, b in SCRIPT]) + "\n")
    tp = os.path.join(wd, "s.trace")
    rc, out, _ = vlib.harness(binp, ["replay", sp, tp])
    assert rc == 0, out
    lines = [json.loads(l) for l in open(tp)]
    props = ["C01", "C02", "C03", "C05", "C06", "C08"]
    results = []

    def case(name, mutate, expect_props, expect_accept):
        ls = copy.deepcopy(lines)
        ls = mutate(ls)
        p = os.path.join(wd, name + ".trace")
        with open(p, "w") as f:
            for l in ls:
                f.write(json.dumps(l) + "\n")
        v, acc = run(p, props)
        ok = (acc == expect_accept) and all(e in v for e in expect_props) and (expect_props or not v)
        results.append((name, v, acc, ok))
        print("%-34s monitor=%-22s conform=%-8s %s" % (name, ",".join(v) or "-", "accepts" if acc else "REJECTS", "ok" if ok else "UNEXPECTED"))

    last_ret = max(i for i, l in enumerate(lines) if l["k"] == "ret" and l["op"] == "DropRoot")
    first_dtor = min(i for i, l in enumerate(lines) if l["k"] == "dtor")

    case("unchanged", lambda ls: ls, [], True)

    def strong_plus_one(ls):        # a survivor-less run: corrupt a count on a live object earlier
        i = max(i for i, l in enumerate(ls) if l["k"] == "ret" and l["op"] == "AdoptStore")
        ls[i]["obs"]["objs"][0]["strong"] += 1
        return ls
    case("strong count +1", strong_plus_one, ["C06"], False)

    def drop_table_entry(ls):
        i = max(i for i, l in enumerate(ls) if l["k"] == "ret" and l["op"] == "AdoptStore")
        ls[i]["obs"]["objs"][0]["links"] = ls[i]["obs"]["objs"][0]["links"][1:]
        return ls
    case("one table entry removed", drop_table_entry, ["C08"], False)

    def undo_destruction(ls):      # the last drop "forgets" to destroy object 3
        for i in range(first_dtor, len(ls)):
            for o in ls[i].get("obs", {}).get("objs", []):
                if o["id"] == 3:
                    o.update(mem="alloc", strong=1, weak=1, vinit=True, linit=True, nd=0, nf=0)
        ls = [l for l in ls if not (l["k"] in ("dtor", "hdrop") and l["a"] == 3)]
        return ls
    case("member 3 not destroyed", undo_destruction, ["C03"], False)

    def upgrade_lies(ls):
        i = max(i for i, l in enumerate(ls) if l["k"] == "ret" and l["op"] == "Upgrade")
        ls[i]["ret"] = "some"
        return ls
    case("upgrade of a dead object -> some", upgrade_lies, ["C05"], False)

    def remove_dtor_line(ls):
        del ls[first_dtor]
        return ls
    case("one dtor line removed", remove_dtor_line, [], False)

    bad = [r for r in results if not r[3]]
    print("selftest: %d/%d expectations hold" % (len(results) - len(bad), len(results)))
    return 1 if bad else 0


if __name__ == "__main__":
    sys.exit(main())
