#!/usr/bin/env python3
"""Deterministic mid-size shapes (9-12 objects) for the code side: sizes that the exhaustive
configurations cannot reach and that random driving rarely builds -- link tables with more
than 8 entries (hash map growth), groups of about 10 members, pairs adopted 3-5 times, two
cycles sharing a member with an acyclic tail, a diamond, a cycle reachable from another
cycle -- each torn down in a seeded random order, with and without an outside handle that
is kept across the collection and used afterwards.

shapes.py <seed> <count> <out.ndjson>"""
import sys, json, random


def op(name, a=0, b=0):
    return dict(op=name, a=a, b=b, d=dict(op="none", x=0, y=0))


class B:
    """Builds a script; every object keeps its creation handle as a root until torn down."""
    def __init__(self):
        self.ops = []
        self.n = 0

    def new(self, k=1):
        ids = []
        for _ in range(k):
            self.n += 1
            self.ops.append(op("New", self.n))
            ids.append(self.n)
        return ids

    def edge(self, a, b, times=1):
        for _ in range(times):
            self.ops.append(op("CloneRoot", b))
            self.ops.append(op("AdoptStore", a, b))

    def weak(self, o):
        self.ops.append(op("Downgrade", o))


def shape_hub(r):
    b = B(); ids = b.new(11); hub = ids[0]
    for s in ids[1:]:
        b.edge(hub, s); b.edge(s, hub)
    return b, ids

def shape_ring(r):
    b = B(); ids = b.new(10)
    for i, x in enumerate(ids):
        b.edge(x, ids[(i + 1) % len(ids)])
    return b, ids

def shape_multi(r):
    b = B(); ids = b.new(3)
    b.edge(ids[0], ids[1], 4); b.edge(ids[1], ids[0], 2); b.edge(ids[1], ids[2], 3); b.edge(ids[2], ids[1], 5)
    b.edge(ids[0], ids[0], 3)
    return b, ids

def shape_shared(r):
    # two cycles sharing member 1, plus an acyclic tail hanging off the second cycle
    b = B(); ids = b.new(9)
    c1 = [ids[0], ids[1], ids[2]]; c2 = [ids[0], ids[3], ids[4], ids[5]]; tail = [ids[5], ids[6], ids[7], ids[8]]
    for c in (c1, c2):
        for i, x in enumerate(c):
            b.edge(x, c[(i + 1) % len(c)])
    for i in range(len(tail) - 1):
        b.edge(tail[i], tail[i + 1])
    return b, ids

def shape_diamond(r):
    b = B(); ids = b.new(9)
    top, l, rr, bot = ids[0], ids[1], ids[2], ids[3]
    b.edge(top, l); b.edge(top, rr); b.edge(l, bot); b.edge(rr, bot); b.edge(bot, top)
    # a second cycle reachable from the first, not reaching back
    c = ids[4:8]
    b.edge(bot, c[0])
    for i, x in enumerate(c):
        b.edge(x, c[(i + 1) % len(c)])
    b.edge(c[2], ids[8])
    return b, ids

def shape_wide_partial(r):
    # a hub with a wide table where only some of the stored handles are recorded
    b = B(); ids = b.new(12); hub = ids[0]
    for i, s in enumerate(ids[1:]):
        if i % 3 == 0:
            b.ops.append(op("CloneRoot", s)); b.ops.append(op("Store", hub, s))
        else:
            b.edge(hub, s)
        b.edge(s, hub)
    return b, ids

SHAPES = [shape_hub, shape_ring, shape_multi, shape_shared, shape_diamond, shape_wide_partial]


def wide_unlink(seed):
    """A link table that grows wide (30-40 simultaneous records) and is emptied again -- fully,
    or down to one record of multiplicity 2 and its mirror -- then probed (clone + drop: the
    allocation-free fast path / a trace over what is left) and torn down.  Kept apart from the
    other shapes: the judge's universe has 32-41 objects here."""
    r = random.Random(seed)
    out = []
    for keep_pair in (False, True):
        for unlink in ("unadopt", "die"):
            b = B(); ids = b.new(41 if not keep_pair else 32); hub = ids[0]
            if keep_pair:
                b.edge(hub, ids[1], 2); b.edge(ids[1], hub)
            wide = ids[2:] if keep_pair else ids[1:]
            for s_ in wide:
                b.edge(hub, s_)
            b.ops += [op("CloneRoot", hub), op("DropRoot", hub)]
            order = wide[:]
            r.shuffle(order)
            for s_ in order:
                if unlink == "unadopt":
                    b.ops += [op("TakeUnadopt", hub, s_), op("DropRoot", s_), op("DropRoot", s_)]
                else:
                    # the adopted child dies: its outside handle first, then the stored one
                    b.ops += [op("DropRoot", s_), op("TakeUnadopt", hub, s_), op("DropRoot", s_)]
            # probe: every handle cloned and dropped once, twice for the hub
            for x in [hub, hub] + ([ids[1]] if keep_pair else []):
                b.ops += [op("CloneRoot", x), op("DropRoot", x)]
            b.ops += [op("Downgrade", hub), op("Upgrade", hub), op("DropRoot", hub)]
            if keep_pair:
                # the pair (hub adopts 1 twice, 1 adopts hub) is orphaned now: it must be collected
                b.ops += [op("Downgrade", ids[1]), op("DropRoot", ids[1]), op("DropRoot", hub), op("Upgrade", ids[1]), op("Upgrade", hub)]
            for o_ in ids:
                b.ops += [op("DropRoot", o_)] * 2
            b.ops += [op("WeakDrop", hub), op("WeakDrop", ids[1])]
            out.append(b.ops)
    return out


def teardown(b, ids, r, keep):
    """drop the roots in random order; `keep`: id whose root handle is dropped last, after a
    clone of it was used (Upgrade of Weak handles in between)"""
    order = ids[:]
    r.shuffle(order)
    ws = r.sample(ids, min(3, len(ids)))
    for w in ws:
        b.weak(w)
    if keep is not None:
        order.remove(keep)
    for i, o in enumerate(order):
        b.ops.append(op("DropRoot", o))
        if i % 4 == 3:
            b.ops.append(op("Upgrade", r.choice(ws)))
    if keep is not None:
        b.ops.append(op("CloneRoot", keep))
        for w in ws:
            b.ops.append(op("Upgrade", w))
        b.ops.append(op("DropRoot", keep))
        b.ops.append(op("DropRoot", keep))
    # whatever Upgrade handed back
    for w in ws:
        b.ops.append(op("Upgrade", w))
    for o in ids:
        for _ in range(6):
            b.ops.append(op("DropRoot", o))
    for w in ws:
        b.ops.append(op("WeakDrop", w))


def generate(seed, count):
    r = random.Random(seed)
    out = []
    for i in range(count):
        f = SHAPES[i % len(SHAPES)]
        b, ids = f(r)
        keep = r.choice(ids) if i % 2 == 0 else None
        teardown(b, ids, r, keep)
        out.append(b.ops)
    return out


if __name__ == "__main__":
    seed, count, path = int(sys.argv[1]), int(sys.argv[2]), sys.argv[3]
    with open(path, "w") as f:
        for s in generate(seed, count):
            f.write(json.dumps(s) + "\n")
