#!/usr/bin/env python3
"""Re-finds the repaired defects on the SPECIFICATION: TLC must produce a counterexample for
each historical variant of the code (Variant switch of CactusRef.tla) and none for VFixed.
Usage: tools/variants.py   (about 2 minutes)"""
import os, sys, json
sys.path.insert(0, os.path.dirname(os.path.abspath(__file__)))
import vlib

CASES = [
    # (variant, family ops, caps, nobj, invariant, expect counterexample)
    ("VPinned", "OpsCore", "CapsQ", 2, "MC_C01", True),     # D-B: loopback double count
    ("VPinned", "OpsCore", "CapsQ", 2, "MC_C02", True),     # D-A: bust by out-degree
    ("VPinned", "OpsCore", "CapsQ", 2, "MC_C08", True),     # D-B: loopback record erased
    ("VFixA", "OpsCore", "CapsQ", 2, "MC_C01", True),       # D-A repaired alone makes loopbacks destructive
    ("VFixAB", "OpsConsume", "CapsQ", 2, "MC_C12", True),   # D-D: try_unwrap / make_mut ignore the tables
    ("VFixed", "OpsCore", "CapsQ", 2, "MC_C01", False),
    ("VFixed", "OpsCore", "CapsQ", 2, "MC_C02", False),
    ("VFixed", "OpsCore", "CapsQ", 2, "MC_C08", False),
    ("VFixed", "OpsConsume", "CapsQ", 2, "MC_C12", False),
    ("VFixed", "OpsCore", "CapsE", 2, "MC_C13", True),      # D-C: the known finding
    ("VFixed", "OpsCore", "CapsE", 2, "MC_C13x", False),    # ... and nothing but the known finding
]


def main():
    bad = 0
    for var, ops, caps, n, inv, expect in CASES:
        cfg = vlib.mc_cfg(n, ops, caps, var, "MenuPlain", [inv])
        st = vlib.tlc_exhaustive("variant_%s_%s_%s" % (var, ops, inv), cfg, 900, workers=8)
        got = bool(st["cex"])
        ok = got == expect
        bad += 0 if ok else 1
        wit = ""
        if st["cex"]:
            wit = vlib.fmt_script(json.loads(st["cex"][0][1]))[:160]
        print("%-8s %-11s %-8s %-8s counterexample=%-5s %s %s" % (var, ops, caps, inv, got, "ok" if ok else "UNEXPECTED", wit))
    return 1 if bad else 0


if __name__ == "__main__":
    sys.exit(main())
