#!/usr/bin/env python3
"""show.py <trace> <line> [context]  -- print trace lines around <line> compactly; show.py <scripts> -s <n> prints script n"""
import sys, json
def fmt(d):
    if d['k'] == 'reset': return 'RESET script=%s' % d['script']
    o = d.get('obs', {})
    objs = ' '.join('%d:%s/s%s/w%s/%s%s/nd%d/nf%d%s' % (x['id'], x['mem'][0], x['strong'], x['weak'], 'V' if x['vinit'] else 'v', 'L' if x['linit'] else 'l', x['nd'], x['nf'], (''.join('%s%d:%d,' % (e[0], e[1], e[2]) for e in x['links'])).join(['[', ']']) if x['links'] else '') for x in o.get('objs', []))
    head = '%s %s(%s,%s)%s d%s' % (d['k'], d.get('op', d.get('kind', '')), d.get('a'), d.get('b'), (' -> ' + d['ret']) if 'ret' in d else '', d.get('depth'))
    if d.get('d', {}).get('op', 'none') != 'none': head += ' script=%s(%s,%s)' % (d['d']['op'], d['d']['x'], d['d']['y'])
    return '%-44s | %s | ub=%s blk=%s' % (head, objs, o.get('ub'), o.get('blocks'))
if sys.argv[2] == '-s':
    ls = open(sys.argv[1]).read().splitlines()
    ops = json.loads(ls[int(sys.argv[3])])
    print(' '.join('%s(%d,%d)%s' % (o['op'], o['a'], o['b'], ('{%s %s %s}' % (o['d']['op'], o['d']['x'], o['d']['y'])) if o.get('d', {}).get('op', 'none') != 'none' else '') for o in ops))
else:
    line = int(sys.argv[2]); ctx = int(sys.argv[3]) if len(sys.argv) > 3 else 8
    with open(sys.argv[1]) as f:
        for i, l in enumerate(f, 1):
            if i > line + 1: break
            if i >= line - ctx:
                print(i, fmt(json.loads(l)))
