#!/usr/bin/env python3
"""Long repetitive histories on few objects (code side of the core family): state that only
accumulates over many rounds -- the same pair adopted and unadopted K times, multiplicities
built up to K and taken down again, a handle cloned and dropped K times on a member of a
group, Weak handles created/upgraded/dropped K times, a ring that is fully unlinked and
re-linked in the other direction K times -- each followed by a probe (clone + drop of every
object: traces, allocation-free fast path) and a teardown.  K runs over values around the
powers of two (table growth, small-vector thresholds)."""
import json


def op(name, a=0, b=0):
    return dict(op=name, a=a, b=b, d=dict(op="none", x=0, y=0))


KS = [9, 17, 33, 70]


def probe(ids):
    out = []
    for x in ids:
        out += [op("CloneRoot", x), op("DropRoot", x)]
    return out


def teardown(ids):
    out = []
    for _ in range(3):
        for x in ids:
            out.append(op("DropRoot", x))
    for x in ids:
        out += [op("Upgrade", x), op("DropRoot", x), op("WeakDrop", x), op("WeakDrop", x)]
    return out


def generate():
    out = []
    for k in KS:
        ids = [1, 2, 3]
        base = [op("New", 1), op("New", 2), op("New", 3)]
        # 1. adopt / unadopt the same pair k times (both directions alternating)
        s = list(base)
        for i in range(k):
            a, b = (1, 2) if i % 2 == 0 else (2, 1)
            s += [op("CloneRoot", b), op("AdoptStore", a, b), op("TakeUnadopt", a, b), op("DropRoot", b)]
        out.append(s + probe(ids) + teardown(ids))
        # 2. multiplicity built up to k, probed, taken down to 1, probed, to 0
        s = list(base)
        for i in range(k):
            s += [op("CloneRoot", 2), op("AdoptStore", 1, 2)]
        s += [op("CloneRoot", 1), op("AdoptStore", 2, 1)] + probe(ids)
        for i in range(k - 1):
            s += [op("TakeUnadopt", 1, 2), op("DropRoot", 2)]
        s += probe(ids) + [op("TakeUnadopt", 1, 2), op("DropRoot", 2)] + probe(ids)
        out.append(s + teardown(ids))
        # 2b. the same, the group orphaned at full multiplicity
        s = list(base)
        for i in range(k):
            s += [op("CloneRoot", 2), op("AdoptStore", 1, 2)]
        s += [op("CloneRoot", 1), op("AdoptStore", 2, 1), op("Downgrade", 1), op("Downgrade", 2)]
        out.append(s + [op("DropRoot", 2), op("DropRoot", 1)] + teardown(ids))
        # 3. k clone/drop pairs on a member of a ring, then the ring is orphaned
        s = list(base)
        for a, b in ((1, 2), (2, 3), (3, 1)):
            s += [op("CloneRoot", b), op("AdoptStore", a, b)]
        for i in range(k):
            s += [op("CloneRoot", 1 + i % 3), op("DropRoot", 1 + i % 3)]
        out.append(s + teardown(ids))
        # 4. Weak handles: k rounds of downgrade / upgrade / drop
        s = list(base) + [op("CloneRoot", 2), op("AdoptStore", 1, 2), op("CloneRoot", 1), op("AdoptStore", 2, 1)]
        for i in range(k):
            s += [op("Downgrade", 1), op("Upgrade", 1), op("DropRoot", 1), op("WeakClone", 1), op("WeakDrop", 1)]
            if i % 4 == 3:
                s.append(op("WeakDrop", 1))
        out.append(s + probe(ids) + teardown(ids))
        # 5. a ring fully unlinked and re-linked the other way round, k/3 times
        s = list(base)
        for r in range(max(2, k // 3)):
            ring = ((1, 2), (2, 3), (3, 1)) if r % 2 == 0 else ((1, 3), (3, 2), (2, 1))
            for a, b in ring:
                s += [op("CloneRoot", b), op("AdoptStore", a, b)]
            s += probe([1])
            for a, b in ring:
                s += [op("TakeUnadopt", a, b), op("DropRoot", b)]
        out.append(s + probe(ids) + teardown(ids))
        # 6. same-handle self adoption k times, undone k times (and one time too many)
        s = list(base)
        s += [op("AdoptSame", 1)] * k + probe([1]) + [op("UnadoptSame", 1)] * (k + 1) + probe([1])
        out.append(s + teardown(ids))
    return out


if __name__ == "__main__":
    import sys
    g = generate()
    if len(sys.argv) > 1:
        with open(sys.argv[1], "w") as f:
            for s in g:
                f.write(json.dumps(s) + "\n")
    print(len(g), sum(len(s) for s in g))
