#!/usr/bin/env python3
"""Runs every exhaustive configuration of the thorough tier once (results are cached by spec+cfg
hash, so the thorough checks reuse them) and prints size and time; a configuration that does not
finish in the budget is reported so that it can be reduced."""
import os, sys, time
sys.path.insert(0, os.path.dirname(os.path.abspath(__file__)))
import vlib
budget = int(sys.argv[1]) if len(sys.argv) > 1 else 1500
only = sys.argv[2:] 
for fam, F in vlib.FAMILIES.items():
    if only and fam not in only:
        continue
    for i, c in enumerate(F["thorough"]["mc"]):
        ops = c.get("ops", F["ops"]); menu = c.get("menu", F["menu"])
        cfg = vlib.mc_cfg(c["nobj"], ops, c["caps"], vlib.VARIANT, menu, F["invs"],
                          extra=("EMITOUT" if F.get("emit_out") else "") + ("TRACKSTD" if F.get("track_std") else ""))
        t0 = time.time()
        try:
            st = vlib.tlc_exhaustive("%s_thorough_%d" % (fam, i), cfg, budget, workers=12)
            print("%-8s #%d nobj=%d caps=%-7s ops=%-12s menu=%-9s distinct=%-9s %4.0fs%s cex=%s" % (
                fam, i, c["nobj"], c["caps"], ops, menu, st.get("distinct"), time.time() - t0, " (cached)" if st["cached"] else "",
                sorted(set(p for p, _ in st["cex"]))), flush=True)
        except vlib.ToolError as e:
            print("%-8s #%d nobj=%d caps=%-7s ops=%-12s menu=%-9s FAILED after %4.0fs: %s" % (fam, i, c["nobj"], c["caps"], ops, menu, time.time() - t0, str(e)[:80]), flush=True)
