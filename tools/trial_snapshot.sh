#!/bin/bash
# trial.sh <suffix A|B|C|D> <outdir with patch.diff> <name> props... : confirm + try in snapshot
X=$1; D=$2; NAME=$3; shift 3
S=/tmp/vsnap$X; R=/tmp/repo_mut$X
echo "######## $NAME $(python3 -c "import json;print(json.load(open('$D/meta.json'))['property'], json.load(open('$D/meta.json'))['summary'][:160])" 2>/dev/null)"
/verif/tools/confirm_mutation.sh $D $NAME 2>&1 | tail -3
git -C $R checkout -q -- . ; git -C $R apply $D/patch.diff || { echo "patch does not apply"; exit 3; }
for prop in "$@"; do
  out=$(cd $S && timeout 1500 ./check $prop --tier quick 2>&1); rc=$?
  echo "== $NAME $prop rc=$rc"
  echo "$out" | grep -E "VIOLATION|MODEL-DRIFT|TOOL-ERROR|quick:" | head -6
done
git -C $R checkout -q -- .
