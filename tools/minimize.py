#!/usr/bin/env python3
"""minimize.py <property> <script.ndjson> [out.ndjson]

Shrinks a violating history (delta debugging over the non-`New` calls; object ids are given
by creation order, so `New` calls are kept) while TLC's Monitor still reports the property
violated on the trace recorded from the real library.  Prints the minimal history."""
import os, sys, json
sys.path.insert(0, os.path.dirname(os.path.abspath(__file__)))
import vlib


def violates(binp, prop, ops, wd, n):
    sp = os.path.join(wd, "m.ndjson")
    tp = os.path.join(wd, "m.trace")
    with open(sp, "w") as f:
        f.write(json.dumps(ops) + "\n")
    rc, out, _ = vlib.harness(binp, ["replay", sp, tp])
    if rc != 0:
        return True          # the library crashed the harness: still a failing history
    P = vlib.PROPS[prop]
    h = vlib.start_trace_tlc("mon", tp, n, vlib.VARIANT, P["monitor"], "minimize")
    r = vlib.finish_trace_tlc(h, 300)
    strict = [p for p in P["monitor"] if p != P.get("known_prop")]
    return any(v["prop"] in strict for v in r["viol"])


def main():
    prop, path = sys.argv[1], sys.argv[2]
    ops = json.loads(open(path).readline())
    wd = os.path.join(vlib.WORK, "minimize")
    os.makedirs(wd, exist_ok=True)
    binp = vlib.build_harness()
    for fam in vlib.PROPS[prop]["fams"]:
        vlib.HARNESS_ENV.update(vlib.FAMILIES[fam].get("env", {}))
    n = max(2, sum(1 for o in ops if o["op"] == "New") + sum(1 for o in ops if o["op"].startswith("MakeMut")))
    if not violates(binp, prop, ops, wd, n):
        print("the history does not violate %s on the current tree" % prop)
        return 1
    # truncate after the first violating prefix
    lo, hi = 1, len(ops)
    while lo < hi:
        mid = (lo + hi) // 2
        if violates(binp, prop, ops[:mid], wd, n):
            hi = mid
        else:
            lo = mid + 1
    ops = ops[:hi]
    chunk = max(1, len(ops) // 2)
    while True:
        i = 0
        changed = False
        while i < len(ops):
            cand = ops[:i] + [o for o in ops[i:i + chunk] if o["op"] == "New"] + ops[i + chunk:]
            if len(cand) < len(ops) and violates(binp, prop, cand, wd, n):
                ops = cand
                changed = True
            else:
                i += chunk
        if chunk > 1:
            chunk //= 2
        elif not changed:
            break
    print(vlib.fmt_script(ops))
    if len(sys.argv) > 3:
        with open(sys.argv[3], "w") as f:
            f.write(json.dumps(ops) + "\n")
    return 0


if __name__ == "__main__":
    sys.exit(main())
