#!/bin/bash
# try_mutation.sh <patch.diff> <prop> [<prop>...]   -- apply to /repo, run quick checks, undo
set -u
P=$1; shift
cd /repo && git status --short | grep -v '^??' | grep . && { echo "repo dirty"; exit 2; }
git -C /repo apply $P || { echo "patch does not apply"; exit 3; }
for prop in "$@"; do
  out=$(cd /verif && ./check $prop --tier quick 2>&1)
  rc=$?
  echo "== $prop rc=$rc"
  echo "$out" | grep -E "VIOLATION|MODEL-DRIFT|TOOL-ERROR|history:|quick:" | head -8
done
git -C /repo checkout -- .
