#!/usr/bin/env python3
"""Extract replay scripts printed by TLC (`<<"SCRIPT", "json">>` / `<<"CEX", "Cxx", "json">>`)
from a TLC log; dedupe; write one JSON array (the call sequence) per line."""
import sys, re, json

def extract(path, tag="SCRIPT", limit=None):
    seen = set()
    out = []
    pat = re.compile(r'^<<"%s", (?:"(C\d+)", )?"(.*)">>$' % tag)
    with open(path, errors="replace") as f:
        for line in f:
            if not line.startswith('<<"' + tag):
                continue
            m = pat.match(line.rstrip("\n"))
            if not m:
                continue
            js = m.group(2).replace('\\"', '"').replace("\\\\", "\\")
            if js in seen:
                continue
            seen.add(js)
            out.append((m.group(1), js))
            if limit and len(out) >= limit:
                break
    return out

if __name__ == "__main__":
    src, dst = sys.argv[1], sys.argv[2]
    tag = sys.argv[3] if len(sys.argv) > 3 else "SCRIPT"
    limit = int(sys.argv[4]) if len(sys.argv) > 4 else None
    rows = extract(src, tag, limit)
    with open(dst, "w") as f:
        for _, js in rows:
            json.loads(js)
            f.write(js + "\n")
    print(len(rows))
