#!/bin/bash
# refresh_snap.sh [snapdir] [repo worktree]: copy the /verif WORKING TREE into a trial snapshot
S=${1:-/tmp/vsnap}; R=${2:-/tmp/repo_mut}
set -e
mkdir -p $S/tools $S/harness $S/work $S/replays $S/cache
for d in spec check findings KNOWN_FINDINGS.json; do rm -rf $S/$d; cp -r /verif/$d $S/; done
rm -f $S/spec/TV_* $S/spec/_gen_* 2>/dev/null || true
for f in /verif/tools/*.py; do cp $f $S/tools/; done
rm -rf $S/harness/src; cp -r /verif/harness/src $S/harness/
cp /verif/harness/Cargo.toml /verif/harness/Cargo.lock /verif/harness/rust-toolchain $S/harness/; mkdir -p $S/evidence; mkdir -p $S/harness/.cargo; cp /verif/harness/.cargo/config.toml $S/harness/.cargo/
sed -i "s#path = \"/repo\"#path = \"$R\"#" $S/harness/Cargo.toml
for f in try_mutation.sh confirm_mutation.sh batch_mut2.sh batch_neutral.sh; do
  [ -f /tmp/vsnap/tools/$f ] && [ "$S" != "/tmp/vsnap" ] && sed "s#/tmp/repo_mut\b#$R#g; s#/tmp/vsnap\b#$S#g" /tmp/vsnap/tools/$f > $S/tools/$f && chmod +x $S/tools/$f
done
rsync -a /verif/cache/ $S/cache/
grep -n "path" $S/harness/Cargo.toml
