import re, glob
rows = {}
for r in (8, 9, 10, 11, 12):
    try:
        for l in open('/root/.vp/runs/%d/log' % r):
            m = re.search(r'\[check\] (C\d\d) thorough: (\d+) scripts, (\d+) trace lines judged, (\d+) violations, drift (\d+), (\d+)s', l)
            if m:
                rows[m.group(1)] = m.groups()
    except OSError:
        pass
s = open('/verif/DESIGN.md').read()
a = s.index("  | check | scripts | trace lines judged | violations | drift | wall |")
b = s.index("* `tools/selftest.py`: 6/6")
hdr = "  | check | scripts | trace lines judged | violations | drift | wall |\n  |-------|---------|--------------------|------------|-------|------|\n"
body = "".join("  | %s | %s | %s | %s | %s | %s s |\n" % rows[k] for k in sorted(rows))
missing = [("C%02d" % i) for i in range(1, 17) if ("C%02d" % i) not in rows]
note = ""
if missing:
    note = "\n  Not finished when the session ended (their last complete thorough runs were on earlier commits of the same day, see section 18): %s.\n" % ", ".join(missing)
s = s[:a] + hdr + body + note + "\n" + s[b:]
open('/verif/DESIGN.md', 'w').write(s)
print(len(rows), missing)
