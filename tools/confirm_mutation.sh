#!/bin/bash
# confirm_mutation.sh <dir with patch.diff demo.rs meta.json> <name>
# Confirms in a scratch worktree (outside /repo and /verif) that the seeded change
#   compiles, passes the existing suite, and that the demo fails with it and passes without it.
set -u
D=$1; NAME=$2
WT=/tmp/confirm_$NAME
git -C /repo worktree remove --force $WT >/dev/null 2>&1
git -C /repo worktree add -q --detach $WT HEAD || exit 2
cd $WT
export CARGO_TARGET_DIR=$WT/target CARGO_NET_OFFLINE=true
res() { echo "$1"; }
git apply $D/patch.diff || { echo "CONFIRM $NAME: patch does not apply"; git -C /repo worktree remove --force $WT; exit 3; }
suite=$(cargo test --offline --workspace --no-fail-fast 2>&1 | grep -E "^test result|error(\[|:)" | grep -v "ok\." | head -5)
cp $D/demo.rs tests/demo_$NAME.rs
with=$(timeout 300 cargo test --offline --test demo_$NAME 2>&1 | grep -E "^test result|signal|error(\[|:)" | head -3)
git checkout -q -- src
without=$(timeout 300 cargo test --offline --test demo_$NAME 2>&1 | grep -E "^test result|signal|error(\[|:)" | head -3)
echo "CONFIRM $NAME: suite_failures=[${suite}] demo_with=[${with}] demo_without=[${without}]"
cd /
git -C /repo worktree remove --force $WT
