//! Pure-function and small-payload differential (property C07): the same generic program is
//! instantiated once with cactusref's `Rc`/`Weak` and once with std's; it returns a digest of
//! everything it observed. Payloads of different size and alignment (zero-sized, 1 byte,
//! odd-sized array, over-aligned) exercise the layout arithmetic of the constructors and of the
//! raw-pointer round trips.
#[macro_export]
macro_rules! misc_types_digest {
    ($rc:ident, $weak:ident) => {{
        use std::borrow::Borrow;
        use std::fmt::Write as _;
        use std::hash::{Hash, Hasher};
        #[derive(Clone, Debug, PartialEq, Eq, PartialOrd, Ord, Hash, Default)]
        #[repr(align(64))]
        struct Big(u64, u8);
        let mut s = String::new();
        // Default / From<T> / From<Box<T>> / new_uninit on plain payloads
        let d: $rc<u32> = Default::default();
        let f: $rc<u32> = $rc::from(7u32);
        let b: $rc<u32> = $rc::from(Box::new(9u32));
        let z: $rc<()> = $rc::new(());
        let zb: $rc<()> = $rc::from(Box::new(()));
        let one: $rc<u8> = $rc::new(200u8);
        let arr: $rc<[u8; 3]> = $rc::from(Box::new([1u8, 2, 3]));
        let big: $rc<Big> = $rc::from(Box::new(Big(77, 5)));
        let _ = write!(s, "{}{}{}{:?}{:?}{}{:?}{:?};", *d, *f, *b, *z, *zb, *one, *arr, *big);
        // comparison operators, hashing, formatting, Borrow/AsRef
        let g: $rc<u32> = $rc::new(7u32);
        let _ = write!(s, "{}{}{}{}{}{}{:?}{:?};", f == g, f != g, f < b, f <= g, b > f, b >= f, f.partial_cmp(&b), f.cmp(&g));
        let hash = |x: &$rc<u32>| {
            let mut h = std::collections::hash_map::DefaultHasher::new();
            x.hash(&mut h);
            h.finish()
        };
        let br: &u32 = f.borrow();
        let ar: &u32 = f.as_ref();
        let _ = write!(s, "{}{}{}{}{:?}{};", hash(&f) == hash(&g), hash(&f) == hash(&b), br, ar, f, format!("{:p}", f) == format!("{:p}", $rc::as_ptr(&f)));
        // equality and ordering are the payload's, also through two handles to ONE allocation
        // (no pointer-identity shortcut unless T: Eq): NaN, and a payload that counts the calls
        let nan: $rc<f64> = $rc::new(f64::NAN);
        let nan2 = nan.clone();
        let _ = write!(s, "{}{}{}{}{:?}{}{};", nan == nan2, nan != nan2, nan == nan, nan != nan, nan.partial_cmp(&nan2), nan < nan2, nan >= nan2);
        static EQC: std::sync::atomic::AtomicU32 = std::sync::atomic::AtomicU32::new(0);
        static NEC: std::sync::atomic::AtomicU32 = std::sync::atomic::AtomicU32::new(0);
        struct Odd;
        impl PartialEq for Odd {
            fn eq(&self, _: &Odd) -> bool {
                EQC.fetch_add(1, std::sync::atomic::Ordering::Relaxed);
                false
            }
            #[allow(clippy::partialeq_ne_impl)]
            fn ne(&self, _: &Odd) -> bool {
                NEC.fetch_add(1, std::sync::atomic::Ordering::Relaxed);
                false
            }
        }
        let o1: $rc<Odd> = $rc::new(Odd);
        let o2 = o1.clone();
        let o3: $rc<Odd> = $rc::new(Odd);
        let r = (o1 == o2, o1 != o2, o1 == o3, o1 != o3, o1 == o1);
        let _ = write!(s, "{:?}{}{};", r, EQC.load(std::sync::atomic::Ordering::Relaxed), NEC.load(std::sync::atomic::Ordering::Relaxed));
        // every trait is forwarded to the payload whatever its size: a zero-sized payload with
        // hand-written Hash / PartialOrd / Ord / Display / Debug impls that are observable
        // (hash writes data, ordering is not total and not consistent with Ord), and the hash
        // of every payload shape equals the payload's own hash
        struct Tag;
        impl Hash for Tag {
            fn hash<H: Hasher>(&self, h: &mut H) {
                h.write_u32(0xC0FFEE);
                h.write_u8(3);
            }
        }
        impl PartialEq for Tag {
            fn eq(&self, _: &Tag) -> bool {
                true
            }
        }
        impl Eq for Tag {}
        impl PartialOrd for Tag {
            fn partial_cmp(&self, _: &Tag) -> Option<std::cmp::Ordering> {
                None
            }
            fn lt(&self, _: &Tag) -> bool {
                true
            }
            fn le(&self, _: &Tag) -> bool {
                false
            }
            fn gt(&self, _: &Tag) -> bool {
                true
            }
            fn ge(&self, _: &Tag) -> bool {
                false
            }
        }
        impl Ord for Tag {
            fn cmp(&self, _: &Tag) -> std::cmp::Ordering {
                std::cmp::Ordering::Greater
            }
        }
        impl std::fmt::Display for Tag {
            fn fmt(&self, f: &mut std::fmt::Formatter<'_>) -> std::fmt::Result {
                write!(f, "T{:?}{:?}{}", f.width(), f.precision(), f.alternate())
            }
        }
        impl std::fmt::Debug for Tag {
            fn fmt(&self, f: &mut std::fmt::Formatter<'_>) -> std::fmt::Result {
                write!(f, "D{:?}{}{}", f.width(), f.sign_plus(), f.alternate())
            }
        }
        macro_rules! hs {
            ($v:expr) => {{
                let mut h = std::collections::hash_map::DefaultHasher::new();
                $v.hash(&mut h);
                h.finish()
            }};
        }
        let t1: $rc<Tag> = $rc::new(Tag);
        let t2: $rc<Tag> = $rc::from(Box::new(Tag));
        let t3 = t1.clone();
        let _ = write!(s, "{}{}{}{}{};", hs!(t1) == hs!(Tag), hs!(t2) == hs!(*t2), hs!(z) == hs!(()), hs!(big) == hs!(*big), hs!(arr) == hs!(*arr));
        let _ = write!(s, "{}{}{}{}{:?}{:?}{}{};", t1 < t2, t1 <= t2, t1 > t2, t1 >= t2, t1.partial_cmp(&t2), t1.cmp(&t2), t1 == t2, t1 != t2);
        let _ = write!(s, "{}{}{}{}{:?}{:?}{};", t1 < t3, t1 <= t3, t1 > t3, t1 >= t3, t1.partial_cmp(&t3), t1.cmp(&t3), t1 == t3);
        let _ = write!(s, "{}|{:7.2}|{:#}|{:?}|{:+4?}|{:#?}|{};", t1, t1, t1, t1, t1, t2, hs!(one) == hs!(200u8));
        let nn: $rc<f64> = $rc::new(1.0);
        let _ = write!(s, "{}{}{}{}{}{}{}{};", nan < nn, nan <= nn, nan > nn, nan >= nn, nn < nan, nn <= nan, nn > nan, nn >= nan);
        // Weak identity is the allocation's, whether or not the value is still there: dead vs
        // dangling, dead vs dead (two allocations), dead vs its own clone, dead vs live
        {
            let a: $rc<Big> = $rc::new(Big(1, 1));
            let b2: $rc<Big> = $rc::new(Big(2, 2));
            let live: $rc<Big> = $rc::new(Big(3, 3));
            let (wa, wb, wl) = ($rc::downgrade(&a), $rc::downgrade(&b2), $rc::downgrade(&live));
            let wa2 = wa.clone();
            let dang: $weak<Big> = $weak::new();
            let pa = wa.as_ptr();
            let pre = (wa.ptr_eq(&wb), wa.ptr_eq(&wa2), wa.ptr_eq(&dang), dang.ptr_eq(&wa));
            drop(a);
            drop(b2);
            let _ = write!(
                s,
                "{:?}{}{}{}{}{}{}{}{}{}{}{};",
                pre,
                wa.ptr_eq(&wb),
                wb.ptr_eq(&wa),
                wa.ptr_eq(&wa2),
                wa.ptr_eq(&dang),
                dang.ptr_eq(&wa),
                wa.ptr_eq(&wl),
                wl.ptr_eq(&wa),
                wa.as_ptr() == pa,
                wa.as_ptr() == wa2.as_ptr(),
                wa.as_ptr() == wb.as_ptr(),
                dang.ptr_eq(&$weak::new())
            );
            let z1: $rc<()> = $rc::new(());
            let z2: $rc<()> = $rc::new(());
            let (wz1, wz2) = ($rc::downgrade(&z1), $rc::downgrade(&z2));
            let zpre = (wz1.ptr_eq(&wz2), $rc::ptr_eq(&z1, &z2), $rc::ptr_eq(&z1, &z1.clone()));
            drop(z1);
            let _ = write!(s, "{:?}{}{}{}{};", zpre, wz1.ptr_eq(&wz2), wz1.ptr_eq(&wz1.clone()), wz1.upgrade().is_none(), wz2.upgrade().is_some());
        }
        // {:p} prints the address of the value (what as_ptr returns and what &*rc is), for every shape
        let st0: $rc<String> = $rc::new(String::from("p"));
        let _ = write!(
            s,
            "{}{}{}{}{};",
            format!("{:p}", big) == format!("{:p}", $rc::as_ptr(&big)),
            format!("{:p}", big) == format!("{:p}", &*big),
            format!("{:p}", one) == format!("{:p}", &*one),
            format!("{:p}", arr) == format!("{:p}", $rc::as_ptr(&arr)),
            format!("{:p}", st0) == format!("{:p}", &*st0)
        );
        // the caller's format options reach the payload
        let fl: $rc<f64> = $rc::new(3.14159);
        let neg: $rc<i32> = $rc::new(-42);
        let st: $rc<String> = $rc::new(String::from("ab"));
        let _ = write!(s, "{:>6}|{:<6}|{:^6}|{:06}|{:+}|{:*>5}|{:.2}|{:9.3}|{:+.1}|{:5}|{:>4}|{:.1};", f, f, f, f, f, f, fl, fl, fl, neg, st, st);
        let _ = write!(s, "{:#?}|{:#x?}|{:08?}|{:?}|{:6?}|{:#?};", big, f, f, st, neg, (f.clone(), st.clone()));
        let _ = write!(s, "{};", format!("{:24p}", f) == format!("{:24p}", $rc::as_ptr(&f)));
        // raw round trips and counts on every payload shape
        macro_rules! rt {
            ($h:expr) => {{
                let h = $h;
                let w = $rc::downgrade(&h);
                let w2 = w.clone();
                let wp = w2.into_raw();
                let w3 = unsafe { $weak::from_raw(wp) };
                let p = $rc::into_raw(h);
                unsafe { $rc::increment_strong_count(p) };
                let h1 = unsafe { $rc::from_raw(p) };
                let h2 = unsafe { $rc::from_raw(p) };
                let _ = write!(s, "{}{}{}{}{},", $rc::strong_count(&h1), $rc::weak_count(&h1), $rc::ptr_eq(&h1, &h2), w.ptr_eq(&w3), $rc::as_ptr(&h1) == wp);
                drop(h1);
                let up = w.upgrade().is_some();
                drop(h2);
                let _ = write!(s, "{}{}{}{};", up, w.upgrade().is_none(), w.strong_count(), w3.weak_count());
            }};
        }
        rt!(z);
        rt!(zb);
        rt!(one);
        rt!(arr);
        rt!(big);
        rt!(d);
        // try_unwrap / get_mut / make_mut on plain payloads
        let mut m: $rc<Big> = $rc::new(Big(1, 2));
        let m2 = m.clone();
        $rc::make_mut(&mut m).0 = 10;
        let _ = write!(s, "{:?}{:?}{}{};", *m, *m2, $rc::strong_count(&m), $rc::strong_count(&m2));
        let wm = $rc::downgrade(&m);
        $rc::make_mut(&mut m).1 = 9;
        let gm = $rc::get_mut(&mut m).is_some();
        let _ = write!(s, "{:?}{}{};", *m, wm.upgrade().is_none(), gm);
        let _ = write!(s, "{:?}{:?};", $rc::try_unwrap(m), $rc::try_unwrap(m2.clone()).is_err());
        let mut u = $rc::<[u8; 3]>::new_uninit();
        $rc::get_mut(&mut u).unwrap().write([7, 8, 9]);
        let u = unsafe { u.assume_init() };
        let pinned = $rc::pin(Big(3, 4));
        let _ = write!(s, "{:?}{:?};", *u, *pinned);
        let dw: $weak<Big> = $weak::new();
        let dw2: $weak<Big> = Default::default();
        let _ = write!(s, "{}{}{}{}{:?}", dw.upgrade().is_none(), dw.strong_count(), dw.weak_count(), dw.ptr_eq(&dw2), dw);
        s
    }};
}
