//! The same scripts on the standard library's `Rc` / `Weak` (property C07): a second world
//! that executes every call of the std-compatible op subset on `std::rc` in lock step with the
//! cactusref world, and reports what the public API shows (result, destruction order, counts
//! through every held handle). The trace Monitor compares the two libraries with each other
//! and both with the reference model `StdRc.tla`.
use std::cell::RefCell;
use std::fmt::Write as _;
use std::rc::{Rc, Weak};

thread_local! {
    static SDLOG: RefCell<Vec<u32>> = const { RefCell::new(Vec::new()) };
    static SCLONES: RefCell<u32> = const { RefCell::new(0) };
    static SCLONE_ID: RefCell<u32> = const { RefCell::new(0) };
    static SSHALLOW: RefCell<bool> = const { RefCell::new(false) };
    static SPANIC: RefCell<bool> = const { RefCell::new(false) };
}

#[repr(align(32))]
pub struct SNode {
    pub id: u32,
    pub strong: RefCell<Vec<(u32, Rc<SNode>)>>,
    pub weak: RefCell<Vec<(u32, Weak<SNode>)>>,
}

impl Drop for SNode {
    fn drop(&mut self) {
        SDLOG.with(|d| d.borrow_mut().push(self.id));
    }
}

impl Clone for SNode {
    fn clone(&self) -> SNode {
        SCLONES.with(|c| *c.borrow_mut() += 1);
        if SPANIC.with(|c| std::mem::replace(&mut *c.borrow_mut(), false)) {
            std::panic::panic_any(0u8);
        }
        let id = SCLONE_ID.with(|c| *c.borrow());
        if SSHALLOW.with(|c| *c.borrow()) {
            return SNode { id, strong: RefCell::new(Vec::new()), weak: RefCell::new(Vec::new()) };
        }
        SNode {
            id,
            strong: RefCell::new(self.strong.borrow().iter().map(|(t, h)| (*t, Rc::clone(h))).collect()),
            weak: RefCell::new(self.weak.borrow().iter().map(|(t, h)| (*t, Weak::clone(h))).collect()),
        }
    }
}

impl PartialEq for SNode {
    fn eq(&self, o: &Self) -> bool {
        self.id == o.id
    }
}
impl Eq for SNode {}
impl PartialOrd for SNode {
    fn partial_cmp(&self, o: &Self) -> Option<std::cmp::Ordering> {
        Some(self.cmp(o))
    }
}
impl Ord for SNode {
    fn cmp(&self, o: &Self) -> std::cmp::Ordering {
        self.id.cmp(&o.id)
    }
}
impl std::hash::Hash for SNode {
    fn hash<H: std::hash::Hasher>(&self, h: &mut H) {
        self.id.hash(h)
    }
}
impl std::fmt::Debug for SNode {
    fn fmt(&self, f: &mut std::fmt::Formatter<'_>) -> std::fmt::Result {
        write!(f, "Node#{}", self.id)
    }
}
impl std::fmt::Display for SNode {
    fn fmt(&self, f: &mut std::fmt::Formatter<'_>) -> std::fmt::Result {
        write!(f, "node {}", self.id)
    }
}

/// the generic small-payload program of `misc.rs`, instantiated with std's types
pub fn types_digest() -> String {
    crate::misc_types_digest!(Rc, Weak)
}

#[derive(Default)]
pub struct SWorld {
    pub n: usize,
    pub vptr: Vec<usize>, // *const SNode of the value while it sits in its allocation
    pub roots: Vec<Vec<Rc<SNode>>>,
    pub wroots: Vec<Vec<Weak<SNode>>>,
    pub raws: Vec<Vec<*const SNode>>,
    pub wraws: Vec<Vec<*const SNode>>,
    pub detached: Vec<Option<SNode>>,
}

fn ins_s(n: &SNode, t: u32, h: Rc<SNode>) {
    let mut v = n.strong.borrow_mut();
    let pos = v.iter().position(|e| e.0 > t).unwrap_or(v.len());
    v.insert(pos, (t, h));
}
fn ins_w(n: &SNode, t: u32, h: Weak<SNode>) {
    let mut v = n.weak.borrow_mut();
    let pos = v.iter().position(|e| e.0 > t).unwrap_or(v.len());
    v.insert(pos, (t, h));
}

impl SWorld {
    pub fn reset(&mut self) {
        for v in std::mem::take(&mut self.roots) {
            for h in v {
                std::mem::forget(h);
            }
        }
        for v in std::mem::take(&mut self.wroots) {
            for h in v {
                std::mem::forget(h);
            }
        }
        for v in std::mem::take(&mut self.detached) {
            std::mem::forget(v);
        }
        self.raws.clear();
        self.wraws.clear();
        self.vptr.clear();
        self.n = 0;
        self.push_slot(0);
        SDLOG.with(|d| d.borrow_mut().clear());
    }
    fn push_slot(&mut self, vptr: usize) {
        self.vptr.push(vptr);
        self.roots.push(Vec::new());
        self.wroots.push(Vec::new());
        self.raws.push(Vec::new());
        self.wraws.push(Vec::new());
        self.detached.push(None);
    }
    fn node(&self, a: u32) -> &SNode {
        unsafe { &*(self.vptr[a as usize] as *const SNode) }
    }

    /// Executes the op (the cactusref world has already established that it is enabled) and
    /// returns the result string, or None when the op has no std counterpart.
    pub fn exec(&mut self, op: &str, a: u32, b: u32, how: &str) -> Option<String> {
        SDLOG.with(|d| d.borrow_mut().clear());
        SCLONES.with(|c| *c.borrow_mut() = 0);
        let (ai, bi) = (a as usize, b as usize);
        let r: String = match op {
            "New" => {
                let id = self.vptr.len() as u32;
                let n = SNode { id, strong: RefCell::new(Vec::new()), weak: RefCell::new(Vec::new()) };
                let h: Rc<SNode> = match how {
                    "box" => Rc::from(Box::new(n)),
                    "from" => Rc::from(n),
                    "uninit" => {
                        let mut rc = Rc::<SNode>::new_uninit();
                        Rc::get_mut(&mut rc).unwrap().write(n);
                        unsafe { rc.assume_init() }
                    }
                    "pin" => unsafe { std::pin::Pin::into_inner_unchecked(Rc::pin(n)) },
                    _ => Rc::new(n),
                };
                self.push_slot(Rc::as_ptr(&h) as usize);
                self.roots[id as usize].push(h);
                "ok".into()
            }
            "CloneRoot" => {
                let h = Rc::clone(&self.roots[ai][0]);
                self.roots[ai].push(h);
                "ok".into()
            }
            "CloneStored" => {
                let h = {
                    let n = self.node(a);
                    let v = n.strong.borrow();
                    Rc::clone(&v.iter().find(|e| e.0 == b)?.1)
                };
                self.roots[bi].push(h);
                "ok".into()
            }
            "DropRoot" => {
                let h = self.roots[ai].pop()?;
                drop(h);
                "unit".into()
            }
            "Store" => {
                let h = self.roots[bi].pop()?;
                ins_s(self.node(a), b, h);
                "ok".into()
            }
            "Take" => {
                let h = {
                    let n = self.node(a);
                    let mut v = n.strong.borrow_mut();
                    let pos = v.iter().position(|e| e.0 == b)?;
                    v.remove(pos).1
                };
                self.roots[bi].push(h);
                "ok".into()
            }
            "DropStored" => {
                let h = {
                    let n = self.node(a);
                    let mut v = n.strong.borrow_mut();
                    let pos = v.iter().position(|e| e.0 == b)?;
                    v.remove(pos).1
                };
                drop(h);
                "unit".into()
            }
            "Downgrade" => {
                let w = if let Some(h) = self.roots[ai].first() {
                    Rc::downgrade(h)
                } else {
                    // a handle stored in some value
                    let mut found = None;
                    for o in 1..self.vptr.len() {
                        if self.detached[o].is_some() || self.vptr[o] == 0 {
                            continue;
                        }
                        if let Some(e) = self.node(o as u32).strong.borrow().iter().find(|e| e.0 == a) {
                            found = Some(Rc::downgrade(&e.1));
                            break;
                        }
                    }
                    found?
                };
                self.wroots[ai].push(w);
                "ok".into()
            }
            "Upgrade" => match self.wroots[ai][0].upgrade() {
                Some(h) => {
                    self.roots[ai].push(h);
                    "some".into()
                }
                None => "none".into(),
            },
            "UpgradeStored" => {
                let r = {
                    let n = self.node(a);
                    let v = n.weak.borrow();
                    v.iter().find(|e| e.0 == b)?.1.upgrade()
                };
                match r {
                    Some(h) => {
                        self.roots[bi].push(h);
                        "some".into()
                    }
                    None => "none".into(),
                }
            }
            "WeakClone" => {
                let w = self.wroots[ai][0].clone();
                self.wroots[ai].push(w);
                "ok".into()
            }
            "WeakDrop" => {
                let w = self.wroots[ai].pop()?;
                drop(w);
                "ok".into()
            }
            "StoreWeak" => {
                let w = self.wroots[bi].pop()?;
                ins_w(self.node(a), b, w);
                "ok".into()
            }
            "TakeWeak" => {
                let w = {
                    let n = self.node(a);
                    let mut v = n.weak.borrow_mut();
                    let pos = v.iter().position(|e| e.0 == b)?;
                    v.remove(pos).1
                };
                self.wroots[bi].push(w);
                "ok".into()
            }
            "TryUnwrap" => {
                let h = self.roots[ai].pop()?;
                match Rc::try_unwrap(h) {
                    Ok(n) => {
                        self.detached[ai] = Some(n);
                        self.vptr[ai] = 0;
                        "ok".into()
                    }
                    Err(h) => {
                        self.roots[ai].push(h);
                        "err".into()
                    }
                }
            }
            "GetMut" => {
                let h = self.roots[ai].last_mut()?;
                if Rc::get_mut(h).is_some() { "some" } else { "none" }.into()
            }
            "MakeMut" | "MakeMutS" | "MakeMutP" => {
                SSHALLOW.with(|c| *c.borrow_mut() = op == "MakeMutS");
                let (sc, wc) = {
                    let h = self.roots[ai].last()?;
                    (Rc::strong_count(h), Rc::weak_count(h))
                };
                let newid = self.vptr.len() as u32;
                SCLONE_ID.with(|c| *c.borrow_mut() = newid);
                let branch = if sc != 1 { "cloned" } else if wc != 0 { "moved" } else { "unique" };
                if op == "MakeMutP" && branch == "cloned" {
                    // Clone panics: the call unwinds, the handle stays where it is
                    SPANIC.with(|c| *c.borrow_mut() = true);
                    let p = self.roots[ai].last_mut()? as *mut Rc<SNode>;
                    let r = std::panic::catch_unwind(std::panic::AssertUnwindSafe(|| unsafe {
                        Rc::make_mut(&mut *p);
                    }));
                    return Some(if r.is_err() { "cpanic".into() } else { "no-panic".into() });
                }
                let mut h = self.roots[ai].pop()?;
                Rc::make_mut(&mut h);
                if branch == "unique" {
                    self.roots[ai].push(h);
                } else {
                    let vptr = Rc::as_ptr(&h) as usize;
                    if branch == "moved" {
                        unsafe { (*(vptr as *mut SNode)).id = newid };
                        self.vptr[ai] = 0;
                    }
                    self.push_slot(vptr);
                    self.roots[newid as usize].push(h);
                }
                branch.into()
            }
            "WeakIntoRaw" => {
                let w = self.wroots[ai].pop()?;
                self.wraws[ai].push(w.into_raw());
                "ok".into()
            }
            "WeakFromRaw" => {
                let p = self.wraws[ai].pop()?;
                self.wroots[ai].push(unsafe { Weak::from_raw(p) });
                "ok".into()
            }
            "IntoRaw" => {
                let h = self.roots[ai].pop()?;
                self.raws[ai].push(Rc::into_raw(h));
                "ok".into()
            }
            "FromRaw" => {
                let p = self.raws[ai].pop()?;
                self.roots[ai].push(unsafe { Rc::from_raw(p) });
                "ok".into()
            }
            "IncStrong" => {
                let p = *self.raws[ai].last()?;
                unsafe { Rc::increment_strong_count(p) };
                self.raws[ai].push(p);
                "ok".into()
            }
            "DecStrong" => {
                let p = self.raws[ai].pop()?;
                unsafe { Rc::decrement_strong_count(p) };
                "unit".into()
            }
            "DropDetached" => {
                let n = self.detached[ai].take()?;
                drop(n);
                "unit".into()
            }
            _ => return None,
        };
        // values destroyed by this call are gone: never look at them again
        let dead: Vec<u32> = SDLOG.with(|d| d.borrow().clone());
        for id in dead {
            if (id as usize) < self.vptr.len() {
                self.vptr[id as usize] = 0;
            }
        }
        Some(r)
    }

    pub fn clones(&self) -> u32 {
        SCLONES.with(|c| *c.borrow())
    }

    /// `{"ret":..,"dlog":[..],"seen":[[id,"S"|"W",strong_count,weak_count],..],"clones":n}`
    pub fn report(&self, ret: &str) -> String {
        let mut s = String::new();
        let _ = write!(s, "{{\"ret\":\"{}\",\"dlog\":[", ret);
        SDLOG.with(|d| {
            for (i, x) in d.borrow().iter().enumerate() {
                if i > 0 {
                    s.push(',');
                }
                let _ = write!(s, "{}", x);
            }
        });
        s.push_str("],\"seen\":[");
        let mut first = true;
        for id in 1..self.vptr.len() {
            for h in &self.roots[id] {
                if !first {
                    s.push(',');
                }
                first = false;
                let _ = write!(s, "[{},\"S\",{},{}]", id, Rc::strong_count(h), Rc::weak_count(h));
            }
            for w in &self.wroots[id] {
                if !first {
                    s.push(',');
                }
                first = false;
                let _ = write!(s, "[{},\"W\",{},{}]", id, w.strong_count(), w.weak_count());
            }
        }
        let _ = write!(s, "],\"clones\":{}}}", self.clones());
        s
    }

    /// Results of the pure functions of the shared API on the current handles (compared with
    /// the same digest computed on cactusref).
    pub fn misc_digest(&self) -> String {
        use std::hash::{Hash, Hasher};
        let mut s = String::new();
        let hs: Vec<&Rc<SNode>> = self.roots.iter().flat_map(|v| v.iter()).collect();
        for (i, x) in hs.iter().enumerate() {
            let mut hh = std::collections::hash_map::DefaultHasher::new();
            x.hash(&mut hh);
            let _ = write!(s, "{}|{:?}|{:x};", x, x, hh.finish());
            for y in hs.iter().skip(i) {
                let _ = write!(s, "{}{}{}{:?},", Rc::ptr_eq(x, y) as u8, (x == y) as u8, (x < y) as u8, x.cmp(y));
            }
        }
        let w: Weak<SNode> = Weak::new();
        let w2 = w.clone();
        let _ = write!(s, "W{}{}{}{:?}", w.upgrade().is_none() as u8, w.strong_count(), w2.weak_count(), w);
        s
    }
}
