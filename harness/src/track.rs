//! Global allocator wrapper + shadow registry shared by the hook sink.
//!
//! * blocks allocated while a library call is active (and no payload callback is
//!   running) are *tracked*: counted, attributed, and quarantined on release so
//!   that a dangling access by the library hits memory that is still mapped and a
//!   second release is observed instead of corrupting the heap;
//! * everything else passes straight through to the system allocator.
//!
//! Single-threaded by construction (the library is `!Send`); the state is plain
//! `static mut`.
#![allow(static_mut_refs)]

use std::alloc::{GlobalAlloc, Layout, System};

pub struct Tracker;

const CAP: usize = 1 << 15;
pub const MAXID: usize = 4096;

#[derive(Clone, Copy)]
pub struct Slot {
    pub addr: usize,
    pub size: usize,
    pub align: usize,
    /// 0 empty, 1 live, 2 quarantined (released by the library)
    pub state: u8,
    /// 0 unattributed, 1 RcBox of object `id`, 2 link table storage of object `id`
    pub kind: u8,
    pub id: u32,
    pub nfree: u32,
}

const EMPTY: Slot = Slot { addr: 0, size: 0, align: 0, state: 0, kind: 0, id: 0, nfree: 0 };

pub static mut SLOTS: [Slot; CAP] = [EMPTY; CAP];
static mut USED: [u32; CAP] = [0; CAP];
static mut NUSED: usize = 0;

/// tracking on (a script is running)
pub static mut TRACK: bool = false;
/// > 0 while inside a library call and not inside a payload callback
pub static mut IN_LIB: i32 = 0;
/// attribution of the next tracked allocation to a link table (object id), 0 = none
pub static mut ATTR: u32 = 0;
pub static mut ATTR_ON: bool = false;

pub static mut LIVE_BLOCKS: i64 = 0;
pub static mut LIVE_BYTES: i64 = 0;
pub static mut ALLOCS_IN_CALL: i64 = 0;
/// tracked allocations made while the top-level `Rc::drop` frame itself is executing
pub static mut ALLOCS_TOP: i64 = 0;
pub static mut TOPDROP: bool = false;
pub static mut DOUBLE_FREE: [u32; 8] = [0; 8];
pub static mut NDOUBLE: usize = 0;
/// bytes requested from the allocator since the process started (always counted)
pub static mut TOTAL_BYTES: u64 = 0;
/// releases whose layout differs from the layout the block was allocated with
pub static mut NBADREL: usize = 0;
pub static mut TBL_LIVE: [i32; MAXID] = [0; MAXID];
pub static mut OVERFLOW: bool = false;

#[inline]
fn hash(addr: usize) -> usize {
    ((addr >> 4).wrapping_mul(0x9E37_79B9_7F4A_7C15)) >> 40 & (CAP - 1)
}

unsafe fn find(addr: usize) -> Option<usize> {
    let mut i = hash(addr);
    for _ in 0..CAP {
        let s = &SLOTS[i];
        if s.state == 0 {
            return None;
        }
        if s.addr == addr {
            return Some(i);
        }
        i = (i + 1) & (CAP - 1);
    }
    None
}

unsafe fn insert(addr: usize, size: usize, align: usize) -> Option<usize> {
    if NUSED >= CAP / 2 {
        OVERFLOW = true;
        return None;
    }
    let mut i = hash(addr);
    loop {
        if SLOTS[i].state == 0 {
            SLOTS[i] = Slot { addr, size, align, state: 1, kind: 0, id: 0, nfree: 0 };
            USED[NUSED] = i as u32;
            NUSED += 1;
            return Some(i);
        }
        i = (i + 1) & (CAP - 1);
    }
}

pub unsafe fn slot_of(addr: usize) -> Option<&'static mut Slot> {
    find(addr).map(|i| &mut SLOTS[i])
}

/// Release every quarantined block for real, forget live tracked blocks (they are
/// leaked), and clear the table. Returns (leaked_blocks, leaked_bytes).
pub unsafe fn reset() -> (i64, i64) {
    let leaked = (LIVE_BLOCKS, LIVE_BYTES);
    for n in 0..NUSED {
        let i = USED[n] as usize;
        let s = SLOTS[i];
        if s.state == 2 {
            System.dealloc(s.addr as *mut u8, Layout::from_size_align_unchecked(s.size, s.align));
        }
        SLOTS[i] = EMPTY;
    }
    NUSED = 0;
    LIVE_BLOCKS = 0;
    LIVE_BYTES = 0;
    ALLOCS_IN_CALL = 0;
    NDOUBLE = 0;
    NBADREL = 0;
    ATTR = 0;
    ATTR_ON = false;
    OVERFLOW = false;
    for t in TBL_LIVE.iter_mut() {
        *t = 0;
    }
    leaked
}

unsafe impl GlobalAlloc for Tracker {
    unsafe fn alloc(&self, layout: Layout) -> *mut u8 {
        let p = System.alloc(layout);
        TOTAL_BYTES += layout.size() as u64;
        if TRACK && IN_LIB > 0 && !p.is_null() {
            if let Some(i) = insert(p as usize, layout.size(), layout.align()) {
                LIVE_BLOCKS += 1;
                LIVE_BYTES += layout.size() as i64;
                ALLOCS_IN_CALL += 1;
                if TOPDROP {
                    ALLOCS_TOP += 1;
                }
                if ATTR_ON && ATTR != 0 {
                    SLOTS[i].kind = 2;
                    SLOTS[i].id = ATTR;
                    if (ATTR as usize) < MAXID {
                        TBL_LIVE[ATTR as usize] += 1;
                    }
                }
            }
        }
        p
    }

    unsafe fn dealloc(&self, ptr: *mut u8, layout: Layout) {
        if TRACK {
            if let Some(i) = find(ptr as usize) {
                let s = &mut SLOTS[i];
                if s.state == 1 {
                    if layout.size() != s.size || layout.align() != s.align {
                        NBADREL += 1;
                    }
                    s.state = 2;
                    s.nfree += 1;
                    LIVE_BLOCKS -= 1;
                    LIVE_BYTES -= s.size as i64;
                    if s.kind == 2 && (s.id as usize) < MAXID {
                        TBL_LIVE[s.id as usize] -= 1;
                    }
                } else {
                    // second release of the same block: observed, not performed
                    s.nfree += 1;
                    if NDOUBLE < 8 {
                        DOUBLE_FREE[NDOUBLE] = s.id;
                    }
                    NDOUBLE += 1;
                }
                return; // quarantined until reset()
            }
        }
        System.dealloc(ptr, layout);
    }
}

/// RAII: "a library call is active"
pub struct LibScope(i32);
impl LibScope {
    #[inline]
    pub fn new() -> Self {
        unsafe {
            let old = IN_LIB;
            IN_LIB = 1;
            LibScope(old)
        }
    }
}
impl Drop for LibScope {
    #[inline]
    fn drop(&mut self) {
        unsafe {
            IN_LIB = self.0;
        }
    }
}

/// RAII: "payload / harness code is running" (possibly nested inside a library call)
pub struct UserScope(i32);
impl UserScope {
    #[inline]
    pub fn new() -> Self {
        unsafe {
            let old = IN_LIB;
            IN_LIB = 0;
            UserScope(old)
        }
    }
}
impl Drop for UserScope {
    #[inline]
    fn drop(&mut self) {
        unsafe {
            IN_LIB = self.0;
        }
    }
}

#[inline]
pub fn lib<R>(f: impl FnOnce() -> R) -> R {
    let _g = LibScope::new();
    f()
}
