//! Conformance harness for cactusref: executes scripts (sequences of public API
//! calls over small object graphs) on the real library built from /repo and records
//! one ndjson trace line per call / return / destructor run / stored-handle drop,
//! each with the projected state of every allocation (the same variables the TLA+
//! specification `CactusRef.tla` has). The traces are judged by TLC
//! (`CactusRefTrace.tla`).
#![allow(static_mut_refs)]
#![allow(clippy::missing_safety_doc)]

#[macro_use]
mod misc;
mod stdworld;
mod track;

use cactusref::verif::{self, Event};
use cactusref::{Adopt, Rc, Weak};
use rand::rngs::SmallRng;
use rand::{Rng, SeedableRng};
use serde_json::Value;
use std::cell::RefCell;
use std::fmt::Write as _;
use std::io::{BufRead, BufWriter, Write};
use std::mem::ManuallyDrop;
use std::panic::{catch_unwind, AssertUnwindSafe};
use track::{lib, UserScope};

#[global_allocator]
static GLOBAL: track::Tracker = track::Tracker;

// ---------------------------------------------------------------------------
// Payload

#[derive(Clone, Debug, Default)]
struct Script {
    op: String,
    x: u32,
    y: u32,
}

// over-aligned on purpose: the value does not sit right behind the RcBox header, so the
// offset arithmetic of from_raw / into_raw / increment/decrement_strong_count matters
#[repr(align(32))]
struct Node {
    id: u32,
    canary: u64,
    strong: RefCell<Vec<SH>>,
    weak: RefCell<Vec<WH>>,
}

const MAGIC: u64 = 0xC0FF_EE00_1234_5678;

/// A strong handle stored inside a value; logs its own drop.
struct SH {
    h: ManuallyDrop<Rc<Node>>,
    owner: u32,
    target: u32,
}
impl SH {
    fn into_rc(mut self) -> Rc<Node> {
        let h = unsafe { ManuallyDrop::take(&mut self.h) };
        std::mem::forget(self);
        h
    }
}
impl Drop for SH {
    fn drop(&mut self) {
        if unsafe { SCALE.quiet_hdrop } {
            unsafe { ManuallyDrop::drop(&mut self.h) };
            return;
        }
        {
            let _u = UserScope::new();
            let w = world();
            line_simple(w, "hdrop", "S", self.owner, self.target);
        }
        lib(|| unsafe { ManuallyDrop::drop(&mut self.h) });
    }
}

/// A Weak handle stored inside a value; logs its own drop.
struct WH {
    h: ManuallyDrop<Weak<Node>>,
    owner: u32,
    target: u32,
}
impl WH {
    fn into_weak(mut self) -> Weak<Node> {
        let h = unsafe { ManuallyDrop::take(&mut self.h) };
        std::mem::forget(self);
        h
    }
}
impl Drop for WH {
    fn drop(&mut self) {
        {
            let _u = UserScope::new();
            let w = world();
            line_simple(w, "hdrop", "W", self.owner, self.target);
        }
        lib(|| unsafe { ManuallyDrop::drop(&mut self.h) });
    }
}

impl PartialEq for Node {
    fn eq(&self, o: &Self) -> bool {
        self.id == o.id
    }
}
impl Eq for Node {}
impl PartialOrd for Node {
    fn partial_cmp(&self, o: &Self) -> Option<std::cmp::Ordering> {
        Some(self.cmp(o))
    }
}
impl Ord for Node {
    fn cmp(&self, o: &Self) -> std::cmp::Ordering {
        self.id.cmp(&o.id)
    }
}
impl std::hash::Hash for Node {
    fn hash<H: std::hash::Hasher>(&self, h: &mut H) {
        self.id.hash(h)
    }
}
impl std::fmt::Debug for Node {
    fn fmt(&self, f: &mut std::fmt::Formatter<'_>) -> std::fmt::Result {
        write!(f, "Node#{}", self.id)
    }
}
impl std::fmt::Display for Node {
    fn fmt(&self, f: &mut std::fmt::Formatter<'_>) -> std::fmt::Result {
        write!(f, "node {}", self.id)
    }
}

/// same digest as `stdworld::SWorld::misc_digest`, computed with cactusref's implementations
fn misc_digest(w: &World) -> String {
    use std::hash::{Hash, Hasher};
    let mut s = String::new();
    let hs: Vec<&Rc<Node>> = w.roots.iter().flat_map(|v| v.iter()).collect();
    for (i, x) in hs.iter().enumerate() {
        let mut hh = std::collections::hash_map::DefaultHasher::new();
        x.hash(&mut hh);
        let _ = write!(s, "{}|{:?}|{:x};", x, x, hh.finish());
        for y in hs.iter().skip(i) {
            let _ = write!(s, "{}{}{}{:?},", Rc::ptr_eq(x, y) as u8, (x == y) as u8, (x < y) as u8, x.cmp(y));
        }
    }
    let wk: Weak<Node> = Weak::new();
    let w2 = wk.clone();
    let _ = write!(s, "W{}{}{}{:?}", wk.upgrade().is_none() as u8, wk.strong_count(), w2.weak_count(), wk);
    s
}

impl Clone for Node {
    /// Used by `Rc::make_mut` only. The clone gets the id the harness reserved for the new
    /// allocation and clones of all stored handles.
    fn clone(&self) -> Node {
        let _u = UserScope::new();
        let w = world();
        w.nclones += 1;
        if w.clone_panics {
            w.clone_panics = false;
            std::panic::panic_any(ClonePanic);
        }
        let id = w.clone_id;
        if w.clone_shallow {
            // a payload whose Clone does not re-share the handles stored in the original
            return Node { id, canary: MAGIC ^ id as u64, strong: RefCell::new(Vec::new()), weak: RefCell::new(Vec::new()) };
        }
        let strong: Vec<SH> = self
            .strong
            .borrow()
            .iter()
            .map(|sh| SH { h: ManuallyDrop::new(lib(|| Rc::clone(&sh.h))), owner: id, target: sh.target })
            .collect();
        let weak: Vec<WH> = self
            .weak
            .borrow()
            .iter()
            .map(|wh| WH { h: ManuallyDrop::new(lib(|| Weak::clone(&wh.h))), owner: id, target: wh.target })
            .collect();
        Node { id, canary: MAGIC ^ id as u64, strong: RefCell::new(strong), weak: RefCell::new(weak) }
    }
}

struct ClonePanic;
struct PanicMarker(#[allow(dead_code)] u32);

impl Drop for Node {
    fn drop(&mut self) {
        if unsafe { SCALE.quiet_hdrop } {
            unsafe {
                SCALE.nd += 1;
            }
            return;
        }
        let _u = UserScope::new();
        let w = world();
        let id = self.id;
        if self.canary != (MAGIC ^ id as u64) {
            w.canary_bad.push(id);
        }
        self.canary = 0xDEAD_DEAD_DEAD_DEAD;
        if let Some(o) = w.objs.get_mut(id as usize) {
            o.nd += 1;
        }
        line_simple(w, "dtor", "", id, 0);
        let sc = w.objs[id as usize].script.clone();
        if sc.op == "Panic" {
            w.panics += 1;
            if std::thread::panicking() && !w.real_abort {
                // a second panic while unwinding aborts the process: predicted, not performed
                w.aborted = true;
                line_simple(w, "abort", "double_panic", id, 0);
                w.quiet = true;
                return;
            }
            std::panic::panic_any(PanicMarker(id));
        }
        if sc.op != "none" && !sc.op.is_empty() {
            let op = Op { op: script_to_op(&sc.op).to_string(), a: sc.x, b: sc.y, d: Script::default() };
            // scripted call from inside the destructor; the owner of stored handles is `id`
            let op = if sc.op == "UpgradeStored" || sc.op == "CloneStored" || sc.op == "DropStored" || sc.op == "Take" || sc.op == "DowngradeStored" || sc.op == "IncStrongStored" {
                Op { a: id, b: sc.x, ..op }
            } else {
                op
            };
            nested_call(w, &op, Some(self));
        }
    }
}

fn script_to_op(s: &str) -> &str {
    match s {
        "UpgradeWeak" => "Upgrade",
        other => other,
    }
}

// ---------------------------------------------------------------------------
// World

#[derive(Default)]
struct ObjInfo {
    made: bool,
    addr: usize,
    vptr: usize, // *const Node
    vinit: bool,
    linit: bool,
    gone: bool,
    nd: u32,
    script: Script,
}

#[derive(Clone, Debug)]
struct Op {
    op: String,
    a: u32,
    b: u32,
    d: Script,
}

#[derive(Default)]
struct World {
    objs: Vec<ObjInfo>, // index = id (1-based; slot 0 unused)
    roots: Vec<Vec<Rc<Node>>>,
    wroots: Vec<Vec<Weak<Node>>>,
    ub: Vec<(String, u32)>,
    canary_bad: Vec<u32>,
    panics: u32,
    depth: i32,    // nesting of scripted calls
    dropdepth: i32, // nesting of Rc::drop
    maxdropdepth: i32,
    ntrace: i64,
    ntrace1: i64, // traces started by the top-level drop itself
    npop: i64,
    nvisit: i64,
    nmember: i64,
    out: String, // trace buffer of the current script
    lines: u64,
    layout_seed: u64,
    pads: Vec<Vec<u8>>,
    quiet: bool, // do not record lines (scale mode)
    skipped: u64,
    raws: Vec<Vec<*const Node>>,
    wraws: Vec<Vec<*const Node>>,
    detached: Vec<Option<Node>>,
    nclones: u32,
    clone_id: u32,
    clone_shallow: bool,
    clone_panics: bool,
    sworld: stdworld::SWorld,
    std_on: bool,
    stdrep: String,
    order: Vec<u32>, // ids in the order the collector marked them (table iteration order)
    real_abort: bool, // child mode: really perform calls that abort the process
    aborted: bool,
}

static mut WORLD: Option<World> = None;

fn world() -> &'static mut World {
    unsafe { WORLD.get_or_insert_with(World::default) }
}

fn id_of(w: &World, addr: usize) -> u32 {
    for (i, o) in w.objs.iter().enumerate() {
        if o.made && o.addr == addr {
            return i as u32;
        }
    }
    0
}

fn is_freed(addr: usize) -> bool {
    unsafe { matches!(track::slot_of(addr), Some(s) if s.state == 2) }
}

fn sink(e: Event) {
    let _u = UserScope::new();
    let w = world();
    match e {
        Event::TouchCounts(p) => {
            let id = id_of(w, p);
            if id != 0 && is_freed(p) {
                push_ub(w, "uaf", id);
            }
        }
        Event::TouchLinks(p) => {
            let id = id_of(w, p);
            unsafe {
                track::ATTR = id;
            }
            if id != 0 {
                if is_freed(p) {
                    push_ub(w, "uaf", id);
                } else if !w.objs[id as usize].linit {
                    push_ub(w, "stale_links", id);
                }
            }
        }
        Event::MoveOutValue(p) => {
            let id = id_of(w, p);
            if id != 0 {
                w.objs[id as usize].vinit = false;
            }
        }
        Event::MoveOutLinks(p) => {
            let id = id_of(w, p);
            if id != 0 {
                w.objs[id as usize].linit = false;
            }
        }
        Event::Mark(p) => {
            let id = id_of(w, p);
            w.order.push(id);
            if id != 0 {
                w.objs[id as usize].vinit = false;
                w.objs[id as usize].linit = false;
            }
        }
        Event::TraceStart(_) => {
            w.ntrace += 1;
            if w.dropdepth == 1 && w.depth == 0 {
                w.ntrace1 += 1;
            }
        }
        Event::TracePop(_) => w.npop += 1,
        Event::TraceVisit(_) => w.nvisit += 1,
        Event::TraceEnd(n) => w.nmember += n as i64,
        Event::DropEnter(_) => {
            w.dropdepth += 1;
            unsafe {
                track::TOPDROP = w.dropdepth == 1 && w.depth == 0;
            }
            if w.dropdepth > w.maxdropdepth {
                w.maxdropdepth = w.dropdepth;
            }
        }
        Event::DropExit(_) => {
            w.dropdepth -= 1;
            unsafe {
                track::TOPDROP = w.dropdepth == 1 && w.depth == 0;
            }
        }
        _ => {}
    }
}

fn push_ub(w: &mut World, what: &str, id: u32) {
    if w.ub.len() < 16 && !w.ub.iter().any(|(k, o)| k == what && *o == id) {
        w.ub.push((what.to_string(), id));
    }
}

fn reset_world(w: &mut World) {
    // leak whatever the previous script still holds: its state may be garbage
    for v in std::mem::take(&mut w.roots) {
        for h in v {
            std::mem::forget(h);
        }
    }
    for v in std::mem::take(&mut w.wroots) {
        for h in v {
            std::mem::forget(h);
        }
    }
    for v in std::mem::take(&mut w.detached) {
        std::mem::forget(v);
    }
    w.sworld.reset();
    w.std_on = std::env::var("HARNESS_STD").map(|v| v == "1").unwrap_or(false);
    w.raws.clear();
    w.raws.push(Vec::new());
    w.wraws.clear();
    w.wraws.push(Vec::new());
    w.detached.push(None);
    w.quiet = false;
    w.objs.clear();
    w.objs.push(ObjInfo::default());
    w.roots.push(Vec::new());
    w.wroots.push(Vec::new());
    w.ub.clear();
    w.canary_bad.clear();
    w.panics = 0;
    w.aborted = false;
    w.depth = 0;
    w.dropdepth = 0;
    w.pads.clear();
    reset_counters(w);
    unsafe {
        track::reset();
    }
}

fn reset_counters(w: &mut World) {
    w.nclones = 0;
    w.order.clear();
    w.ntrace = 0;
    w.ntrace1 = 0;
    w.npop = 0;
    w.nvisit = 0;
    w.nmember = 0;
    w.maxdropdepth = w.dropdepth;
    unsafe {
        track::ALLOCS_IN_CALL = 0;
        track::ALLOCS_TOP = 0;
        track::TOPDROP = false;
    }
}

// ---------------------------------------------------------------------------
// Observation

fn intact(w: &World, id: u32) -> bool {
    let o = &w.objs[id as usize];
    o.made && o.vinit && !o.gone && o.nd == 0 && !is_freed(o.addr)
}

fn node<'a>(w: &World, id: u32) -> &'a Node {
    unsafe { &*(w.objs[id as usize].vptr as *const Node) }
}

fn enc(v: usize) -> i64 {
    if v == usize::MAX {
        -1
    } else if v > 1_000_000_000 {
        -2
    } else {
        v as i64
    }
}

fn obs_json(w: &World, s: &mut String) {
    s.push_str("{\"objs\":[");
    let mut first = true;
    for id in 1..w.objs.len() {
        let o = &w.objs[id];
        if !o.made {
            continue;
        }
        if !first {
            s.push(',');
        }
        first = false;
        let (state, nfree) = unsafe {
            match track::slot_of(o.addr) {
                Some(sl) => (sl.state, sl.nfree),
                None => (1, 0),
            }
        };
        let freed = state == 2;
        let (st, wk) = unsafe {
            let p = o.addr as *const usize;
            (p.read_volatile(), p.add(1).read_volatile())
        };
        // the table owns heap storage (asked from the library while the table is in place;
        // storage of a moved-out table shows up in `blocks` until the table is dropped)
        let tbl = !freed
            && o.linit
            && unsafe { verif::links_capacity::<Node>(o.addr) }.map_or(false, |c| c > 0);
        let _ = write!(
            s,
            "{{\"id\":{},\"mem\":\"{}\",\"strong\":{},\"weak\":{},\"vinit\":{},\"linit\":{},\"tbl\":{},\"nd\":{},\"nf\":{},\"links\":[",
            id,
            if freed { "freed" } else { "alloc" },
            enc(st),
            enc(wk),
            o.vinit && !freed,
            o.linit && !freed,
            tbl,
            o.nd,
            nfree
        );
        if !freed && o.linit {
            let snap = unsafe { verif::links_snapshot::<Node>(o.addr) };
            if let Some(mut v) = snap {
                let mut ents: Vec<(u8, u32, usize)> =
                    v.drain(..).map(|(k, p, c)| (k, id_of(w, p), c)).collect();
                ents.sort();
                for (i, (k, p, c)) in ents.iter().enumerate() {
                    if i > 0 {
                        s.push(',');
                    }
                    let kk = match k {
                        0 => "F",
                        1 => "B",
                        _ => "L",
                    };
                    let _ = write!(s, "[\"{}\",{},{}]", kk, p, enc(*c));
                }
            }
        }
        s.push_str("]}");
    }
    s.push_str("],\"ub\":[");
    for (i, (k, o)) in w.ub.iter().enumerate() {
        if i > 0 {
            s.push(',');
        }
        let _ = write!(s, "[\"{}\",{}]", k, o);
    }
    let nd = unsafe { track::NDOUBLE };
    if nd > 0 {
        if !w.ub.is_empty() {
            s.push(',');
        }
        let id = unsafe { track::DOUBLE_FREE[0] };
        let _ = write!(s, "[\"double_free\",{}]", id);
    }
    let _ = write!(
        s,
        "],\"badrel\":{},\"blocks\":{},\"bytes\":{}}}",
        unsafe { track::NBADREL },
        unsafe { track::LIVE_BLOCKS },
        unsafe { track::LIVE_BYTES }
    );
}

fn line_simple(w: &mut World, k: &str, kind: &str, a: u32, b: u32) {
    if w.quiet {
        return;
    }
    // what the public API reports through every held handle, as seen from inside a destructor
    let seen = if k == "dtor" && w.ub.is_empty() && !w.aborted { seen_json(w) } else { "[]".to_string() };
    let mut s = std::mem::take(&mut w.out);
    let _ = write!(s, "{{\"k\":\"{}\",\"kind\":\"{}\",\"a\":{},\"b\":{},\"depth\":{},\"seen\":{},\"obs\":", k, kind, a, b, w.depth, seen);
    obs_json(w, &mut s);
    s.push_str("}\n");
    w.out = s;
    w.lines += 1;
    flush_child(w);
}

fn line_call(w: &mut World, op: &Op) {
    if w.quiet {
        return;
    }
    let mut s = std::mem::take(&mut w.out);
    let _ = write!(
        s,
        "{{\"k\":\"call\",\"op\":\"{}\",\"a\":{},\"b\":{},\"d\":{{\"op\":\"{}\",\"x\":{},\"y\":{}}},\"depth\":{},\"obs\":",
        op.op,
        op.a,
        op.b,
        if op.d.op.is_empty() { "none" } else { &op.d.op },
        op.d.x,
        op.d.y,
        w.depth
    );
    obs_json(w, &mut s);
    s.push_str("}\n");
    w.out = s;
    w.lines += 1;
    flush_child(w);
}

fn line_ret(w: &mut World, op: &Op, ret: &str, panicked: bool, seen: &str) {
    if w.quiet {
        return;
    }
    let mut s = std::mem::take(&mut w.out);
    let _ = write!(
        s,
        "{{\"k\":\"ret\",\"op\":\"{}\",\"a\":{},\"b\":{},\"d\":{{\"op\":\"{}\",\"x\":{},\"y\":{}}},\"ret\":\"{}\",\"panic\":{},\"depth\":{},\"cnt\":{{\"ntrace\":{},\"npop\":{},\"nvisit\":{},\"nmember\":{},\"nalloc\":{},\"maxdepth\":{},\"ntrace1\":{},\"nalloc1\":{},\"nclones\":{},\"order\":{:?}}},\"stdon\":{},\"std\":{},\"seen\":{},\"obs\":",
        op.op,
        op.a,
        op.b,
        if op.d.op.is_empty() { "none" } else { &op.d.op },
        op.d.x,
        op.d.y,
        ret,
        panicked,
        w.depth,
        w.ntrace,
        w.npop,
        w.nvisit,
        w.nmember,
        unsafe { track::ALLOCS_IN_CALL },
        w.maxdropdepth,
        w.ntrace1,
        unsafe { track::ALLOCS_TOP },
        w.nclones,
        w.order,
        !w.stdrep.is_empty() && w.depth == 0,
        if w.stdrep.is_empty() || w.depth != 0 { "{\"ret\":\"-\",\"dlog\":[],\"seen\":[],\"clones\":0}" } else { w.stdrep.as_str() },
        seen
    );
    obs_json(w, &mut s);
    s.push_str("}\n");
    w.out = s;
    w.lines += 1;
}

/// What the public API reports through every held handle: `[id, kind, strong_count,
/// weak_count, deref_ok, ptr_ok]`. Only handles to allocations the registry knows to be
/// intact are dereferenced (anything else would be real UB; the Monitor flags those from
/// the projected state instead).
fn seen_json(w: &World) -> String {
    let mut s = String::from("[");
    let mut first = true;
    for id in 1..w.objs.len() {
        let o = &w.objs[id];
        if !o.made {
            continue;
        }
        let freed = is_freed(o.addr);
        for h in &w.roots[id] {
            if freed || !o.vinit || o.gone {
                continue;
            }
            let sc = lib(|| Rc::strong_count(h));
            let wc = lib(|| Rc::weak_count(h));
            let ok = h.id == id as u32 && h.canary == (MAGIC ^ id as u64);
            let pok = Rc::as_ptr(h) as usize == o.vptr && Rc::ptr_eq(h, &w.roots[id][0]);
            if !first {
                s.push(',');
            }
            first = false;
            let _ = write!(s, "[{},\"S\",{},{},{},{}]", id, enc(sc), enc(wc), ok, pok);
        }
        for h in &w.wroots[id] {
            if freed {
                continue;
            }
            let sc = lib(|| h.strong_count());
            let wc = lib(|| h.weak_count());
            let pok = h.as_ptr() as usize == o.vptr;
            if !first {
                s.push(',');
            }
            first = false;
            let _ = write!(s, "[{},\"W\",{},{},true,{}]", id, enc(sc), enc(wc), pok);
        }
    }
    s.push(']');
    s
}

// ---------------------------------------------------------------------------
// Executing one call

/// any handle object naming `o` that the harness can reach, other than `excl`
fn any_handle(w: &World, o: u32, excl: *const Rc<Node>) -> Option<*const Rc<Node>> {
    for h in &w.roots[o as usize] {
        let p = h as *const Rc<Node>;
        if p != excl {
            return Some(p);
        }
    }
    for a in 1..w.objs.len() as u32 {
        if !intact(w, a) {
            continue;
        }
        let n = node(w, a);
        let v = n.strong.borrow();
        for sh in v.iter() {
            if sh.target == o {
                let p = &*sh.h as *const Rc<Node>;
                if p != excl {
                    return Some(p);
                }
            }
        }
    }
    None
}

fn insert_sorted_s(n: &Node, sh: SH) {
    let mut v = n.strong.borrow_mut();
    let pos = v.iter().position(|e| e.target > sh.target).unwrap_or(v.len());
    v.insert(pos, sh);
}
fn insert_sorted_w(n: &Node, wh: WH) {
    let mut v = n.weak.borrow_mut();
    let pos = v.iter().position(|e| e.target > wh.target).unwrap_or(v.len());
    v.insert(pos, wh);
}
fn take_s(n: &Node, t: u32) -> Option<SH> {
    let mut v = n.strong.borrow_mut();
    let pos = v.iter().position(|e| e.target == t)?;
    Some(v.remove(pos))
}
fn take_w(n: &Node, t: u32) -> Option<WH> {
    let mut v = n.weak.borrow_mut();
    let pos = v.iter().position(|e| e.target == t)?;
    Some(v.remove(pos))
}

fn pad_layout(w: &mut World) {
    if w.layout_seed == 0 {
        return;
    }
    // perturb the addresses of later allocations: a seeded number of padding blocks of
    // the RcBox's size class
    let mut r = SmallRng::seed_from_u64(w.layout_seed ^ (w.objs.len() as u64).wrapping_mul(0x9E37));
    let n = r.gen_range(0..7);
    for _ in 0..n {
        let sz = [16usize, 32, 48, 64, 80, 96, 112, 128][r.gen_range(0..8)];
        w.pads.push(Vec::with_capacity(sz));
    }
}

/// Executes the call; returns its result string, or None when the call is not enabled
/// in the current world (the harness never calls the library then).
fn exec(w: &mut World, op: &Op, in_dtor_of: Option<&Node>, dry: bool) -> Option<String> {
    macro_rules! go {
        () => {
            if dry {
                return Some(String::new());
            }
        };
    }
    let a = op.a;
    let b = op.b;
    let made = |w: &World, o: u32| (o as usize) < w.objs.len() && o >= 1 && w.objs[o as usize].made;
    match op.op.as_str() {
        "New" => {
            go!();
            let id = w.objs.len() as u32;
            pad_layout(w);
            let n = Node { id, canary: MAGIC ^ id as u64, strong: RefCell::new(Vec::new()), weak: RefCell::new(Vec::new()) };
            let h: Rc<Node> = match op.d.op.as_str() {
                "box" => {
                    let bx = Box::new(n);
                    lib(|| Rc::from(bx))
                }
                "from" => lib(|| Rc::from(n)),
                "uninit" => lib(|| {
                    let mut rc = Rc::<Node>::new_uninit();
                    unsafe {
                        Rc::get_mut_unchecked(&mut rc).as_mut_ptr().write(n);
                        rc.assume_init()
                    }
                }),
                "pin" => lib(|| unsafe { std::pin::Pin::into_inner_unchecked(Rc::pin(n)) }),
                _ => lib(|| Rc::new(n)),
            };
            let addr = verif::rcbox_addr(&h);
            unsafe {
                if let Some(sl) = track::slot_of(addr) {
                    sl.kind = 1;
                    sl.id = id;
                }
            }
            w.objs.push(ObjInfo {
                made: true,
                addr,
                vptr: Rc::as_ptr(&h) as usize,
                vinit: true,
                linit: true,
                gone: false,
                nd: 0,
                script: op.d.clone(),
            });
            w.roots.push(vec![h]);
            w.wroots.push(Vec::new());
            w.raws.push(Vec::new());
            w.wraws.push(Vec::new());
            w.detached.push(None);
            Some("ok".into())
        }
        "CloneRoot" => {
            if !made(w, a) || w.roots[a as usize].is_empty() {
                return None;
            }
            go!();
            if let Some(r) = clone_guard(w, a) {
                return Some(r);
            }
            let p = &w.roots[a as usize][0] as *const Rc<Node>;
            let h = lib(|| unsafe { Rc::clone(&*p) });
            w.roots[a as usize].push(h);
            Some("ok".into())
        }
        "CloneStored" => {
            if !made(w, a) || !made(w, b) {
                return None;
            }
            let n: &Node = match in_dtor_of {
                Some(n) if n.id == a => n,
                _ => {
                    if !intact(w, a) {
                        return None;
                    }
                    node(w, a)
                }
            };
            let p = {
                let v = n.strong.borrow();
                let sh = v.iter().find(|e| e.target == b)?;
                &*sh.h as *const Rc<Node>
            };
            go!();
            if let Some(r) = clone_guard(w, b) {
                return Some(r);
            }
            let h = lib(|| unsafe { Rc::clone(&*p) });
            w.roots[b as usize].push(h);
            Some("ok".into())
        }
        "DowngradeStored" | "IncStrongStored" => {
            // through a handle stored in a's value (owner may be inside its own destructor)
            if !made(w, a) || !made(w, b) {
                return None;
            }
            let n: &Node = match in_dtor_of {
                Some(n) if n.id == a => n,
                _ => {
                    if !intact(w, a) {
                        return None;
                    }
                    node(w, a)
                }
            };
            let p = {
                let v = n.strong.borrow();
                let sh = v.iter().find(|e| e.target == b)?;
                &*sh.h as *const Rc<Node>
            };
            go!();
            if is_freed(w.objs[b as usize].addr) {
                push_ub(w, "uaf", b);
                return Some("uaf".into());
            }
            if op.op == "DowngradeStored" {
                let wk = lib(|| unsafe { Rc::downgrade(&*p) });
                w.wroots[b as usize].push(wk);
            } else {
                if let Some(r) = clone_guard(w, b) {
                    return Some(r);
                }
                let raw = lib(|| unsafe {
                    let q = Rc::as_ptr(&*p);
                    Rc::increment_strong_count(q);
                    q
                });
                w.raws[b as usize].push(raw);
            }
            Some("ok".into())
        }
        "DropRoot" => {
            if !made(w, a) {
                return None;
            }
            if w.roots[a as usize].is_empty() {
                return None;
            }
            go!();
            let h = w.roots[a as usize].pop()?;
            lib(|| drop(h));
            Some("unit".into())
        }
        "Store" => {
            if !made(w, a) || !made(w, b) || !intact(w, a) {
                return None;
            }
            if w.roots[b as usize].is_empty() {
                return None;
            }
            go!();
            let h = w.roots[b as usize].pop()?;
            insert_sorted_s(node(w, a), SH { h: ManuallyDrop::new(h), owner: a, target: b });
            Some("ok".into())
        }
        "Take" => {
            if !made(w, a) || !made(w, b) {
                return None;
            }
            let n: &Node = match in_dtor_of {
                Some(n) if n.id == a => n,
                _ => {
                    if !intact(w, a) {
                        return None;
                    }
                    node(w, a)
                }
            };
            if !n.strong.borrow().iter().any(|e| e.target == b) {
                return None;
            }
            // a destructor may only move out handles to objects that are not being destroyed
            if in_dtor_of.is_some() && !intact(w, b) {
                return None;
            }
            go!();
            let sh = take_s(n, b)?;
            w.roots[b as usize].push(sh.into_rc());
            Some("ok".into())
        }
        "DropStored" => {
            if !made(w, a) || !made(w, b) {
                return None;
            }
            let n: &Node = match in_dtor_of {
                Some(n) if n.id == a => n,
                _ => {
                    if !intact(w, a) {
                        return None;
                    }
                    node(w, a)
                }
            };
            if !n.strong.borrow().iter().any(|e| e.target == b) {
                return None;
            }
            go!();
            let sh = take_s(n, b)?;
            let h = sh.into_rc();
            lib(|| drop(h));
            Some("unit".into())
        }
        "Adopt" | "Unadopt" => {
            if !made(w, a) || !made(w, b) || !intact(w, a) || !intact(w, b) {
                return None;
            }
            let p1 = any_handle(w, a, std::ptr::null())?;
            let p2 = any_handle(w, b, p1)?;
            go!();
            adopt_call(op.op == "Adopt", p1, p2);
            Some("ok".into())
        }
        "AdoptSame" | "UnadoptSame" => {
            if !made(w, a) || !intact(w, a) {
                return None;
            }
            let p1 = any_handle(w, a, std::ptr::null())?;
            go!();
            adopt_call(op.op == "AdoptSame", p1, p1);
            Some("ok".into())
        }
        "AdoptStore" => {
            if !made(w, a) || !made(w, b) || !intact(w, a) || !intact(w, b) {
                return None;
            }
            let p2 = w.roots[b as usize].last()? as *const Rc<Node>;
            let p1 = any_handle(w, a, p2)?;
            go!();
            adopt_call(true, p1, p2);
            let h = w.roots[b as usize].pop()?;
            insert_sorted_s(node(w, a), SH { h: ManuallyDrop::new(h), owner: a, target: b });
            Some("ok".into())
        }
        "TakeUnadopt" => {
            if !made(w, a) || !made(w, b) || !intact(w, a) || !intact(w, b) {
                return None;
            }
            // the handle that will be taken must not be the only way to name `a`
            {
                let n = node(w, a);
                let v = n.strong.borrow();
                let sh = v.iter().find(|e| e.target == b)?;
                let p2 = &*sh.h as *const Rc<Node>;
                any_handle(w, a, p2)?;
            }
            go!();
            let sh = take_s(node(w, a), b)?;
            w.roots[b as usize].push(sh.into_rc());
            let p2 = w.roots[b as usize].last()? as *const Rc<Node>;
            let p1 = any_handle(w, a, p2)?;
            adopt_call(false, p1, p2);
            Some("ok".into())
        }
        "Downgrade" => {
            if !made(w, a) || !intact(w, a) {
                return None;
            }
            let p = any_handle(w, a, std::ptr::null())?;
            go!();
            let wk = lib(|| unsafe { Rc::downgrade(&*p) });
            w.wroots[a as usize].push(wk);
            Some("ok".into())
        }
        "Upgrade" => {
            if !made(w, a) || w.wroots[a as usize].is_empty() {
                return None;
            }
            go!();
            let p = &w.wroots[a as usize][0] as *const Weak<Node>;
            match lib(|| unsafe { (*p).upgrade() }) {
                Some(h) => {
                    w.roots[a as usize].push(h);
                    Some("some".into())
                }
                None => Some("none".into()),
            }
        }
        "UpgradeStored" => {
            if !made(w, a) || !made(w, b) {
                return None;
            }
            // from inside a's own destructor the value is reachable through `self`
            let n: &Node = match in_dtor_of {
                Some(n) if n.id == a => n,
                _ => {
                    if !intact(w, a) {
                        return None;
                    }
                    node(w, a)
                }
            };
            let p = {
                let v = n.weak.borrow();
                let wh = v.iter().find(|e| e.target == b)?;
                &*wh.h as *const Weak<Node>
            };
            go!();
            match lib(|| unsafe { (*p).upgrade() }) {
                Some(h) => {
                    w.roots[b as usize].push(h);
                    Some("some".into())
                }
                None => Some("none".into()),
            }
        }
        "WeakClone" => {
            if !made(w, a) || w.wroots[a as usize].is_empty() {
                return None;
            }
            go!();
            let p = &w.wroots[a as usize][0] as *const Weak<Node>;
            let h = lib(|| unsafe { (*p).clone() });
            w.wroots[a as usize].push(h);
            Some("ok".into())
        }
        "WeakDrop" => {
            if !made(w, a) {
                return None;
            }
            if w.wroots[a as usize].is_empty() {
                return None;
            }
            go!();
            let h = w.wroots[a as usize].pop()?;
            lib(|| drop(h));
            Some("ok".into())
        }
        "StoreWeak" => {
            if !made(w, a) || !made(w, b) || !intact(w, a) {
                return None;
            }
            if w.wroots[b as usize].is_empty() {
                return None;
            }
            go!();
            let h = w.wroots[b as usize].pop()?;
            insert_sorted_w(node(w, a), WH { h: ManuallyDrop::new(h), owner: a, target: b });
            Some("ok".into())
        }
        "TakeWeak" => {
            if !made(w, a) || !made(w, b) || !intact(w, a) {
                return None;
            }
            if !node(w, a).weak.borrow().iter().any(|e| e.target == b) {
                return None;
            }
            go!();
            let wh = take_w(node(w, a), b)?;
            w.wroots[b as usize].push(wh.into_weak());
            Some("ok".into())
        }
        "TryUnwrap" => {
            if !made(w, a) || w.roots[a as usize].is_empty() || !intact(w, a) {
                return None;
            }
            go!();
            let h = w.roots[a as usize].pop()?;
            match lib(|| Rc::try_unwrap(h)) {
                Ok(n) => {
                    w.objs[a as usize].gone = true;
                    w.detached[a as usize] = Some(n);
                    Some("ok".into())
                }
                Err(h) => {
                    w.roots[a as usize].push(h);
                    Some("err".into())
                }
            }
        }
        "GetMut" => {
            if !made(w, a) || w.roots[a as usize].is_empty() || !intact(w, a) {
                return None;
            }
            go!();
            let p = w.roots[a as usize].last_mut()? as *mut Rc<Node>;
            let r = lib(|| unsafe { Rc::get_mut(&mut *p).is_some() });
            Some(if r { "some" } else { "none" }.into())
        }
        "MakeMut" | "MakeMutS" | "MakeMutP" => {
            if !made(w, a) || w.roots[a as usize].is_empty() || !intact(w, a) {
                return None;
            }
            let (sc, wc) = {
                let h = w.roots[a as usize].last()?;
                (lib(|| Rc::strong_count(h)), lib(|| Rc::weak_count(h)))
            };
            let newid = w.objs.len() as u32;
            let branch = if sc != 1 { "cloned" } else if wc != 0 { "moved" } else { "unique" };
            // MakeMutP: the payload's Clone panics -- only meaningful on the cloning branch
            let clone_panics = op.op == "MakeMutP" && branch == "cloned";
            // the call line must carry the id of the allocation make_mut will create
            if dry {
                return Some(if branch == "unique" || clone_panics { "0".into() } else { newid.to_string() });
            }
            w.clone_shallow = op.op == "MakeMutS";
            w.clone_panics = clone_panics;
            if branch == "cloned" && !w.clone_shallow && !clone_panics {
                // cloning the value clones every stored strong handle: predicted abort
                let n = node(w, a);
                let dead: Vec<u32> = n.strong.borrow().iter().map(|e| e.target).collect();
                if dead.iter().any(|t| would_abort(w, *t)) {
                    return Some("abort".into());
                }
            }
            w.clone_id = newid;
            pad_layout(w);
            // in place: if Clone panics the handle stays where it is while the call unwinds
            let p = w.roots[a as usize].last_mut()? as *mut Rc<Node>;
            let oldaddr = verif::rcbox_addr(unsafe { &*p });
            // a destructor run by the release of the old handle may panic: the bookkeeping
            // below is done first, then the panic continues
            let r = catch_unwind(AssertUnwindSafe(|| {
                lib(|| unsafe {
                    Rc::make_mut(&mut *p);
                })
            }));
            if branch == "unique" || clone_panics {
                if let Err(e) = r {
                    std::panic::resume_unwind(e);
                }
                return Some("unique".into());
            }
            let h = w.roots[a as usize].pop()?;
            let addr = verif::rcbox_addr(&h);
            if addr == oldaddr {
                // make_mut had to give the handle a new allocation and did not
                push_ub(w, "makemut_stale", a);
                w.roots[a as usize].push(h);
                if let Err(e) = r {
                    std::panic::resume_unwind(e);
                }
                return Some("stale".into());
            }
            unsafe {
                if let Some(sl) = track::slot_of(addr) {
                    sl.kind = 1;
                    sl.id = newid;
                }
            }
            let vptr = Rc::as_ptr(&h) as usize;
            if branch == "moved" {
                // the same value now lives in the new allocation: rename it
                let n = unsafe { &mut *(vptr as *mut Node) };
                n.id = newid;
                n.canary = MAGIC ^ newid as u64;
                for sh in n.strong.borrow_mut().iter_mut() {
                    sh.owner = newid;
                }
                for wh in n.weak.borrow_mut().iter_mut() {
                    wh.owner = newid;
                }
                w.objs[a as usize].gone = true;
            }
            // a moved value keeps its destructor script; a clone is a plain value
            let script = if branch == "moved" { w.objs[a as usize].script.clone() } else { Script { op: "none".into(), x: 0, y: 0 } };
            w.objs.push(ObjInfo { made: true, addr, vptr, vinit: true, linit: true, gone: false, nd: 0, script });
            w.roots.push(vec![h]);
            w.wroots.push(Vec::new());
            w.raws.push(Vec::new());
            w.wraws.push(Vec::new());
            w.detached.push(None);
            if let Err(e) = r {
                std::panic::resume_unwind(e);
            }
            Some(branch.into())
        }
        "IntoRaw" => {
            if !made(w, a) || w.roots[a as usize].is_empty() {
                return None;
            }
            go!();
            let h = w.roots[a as usize].pop()?;
            let p = lib(|| Rc::into_raw(h));
            w.raws[a as usize].push(p);
            Some("ok".into())
        }
        "FromRaw" => {
            if !made(w, a) || w.raws[a as usize].is_empty() {
                return None;
            }
            go!();
            let p = w.raws[a as usize].pop()?;
            let h = lib(|| unsafe { Rc::from_raw(p) });
            w.roots[a as usize].push(h);
            Some("ok".into())
        }
        "WeakIntoRaw" => {
            if !made(w, a) || w.wroots[a as usize].is_empty() {
                return None;
            }
            go!();
            let h = w.wroots[a as usize].pop()?;
            let same = h.as_ptr() as usize == w.objs[a as usize].vptr;
            let p = lib(|| h.into_raw());
            w.wraws[a as usize].push(p);
            Some(if same && p as usize == w.objs[a as usize].vptr { "ok" } else { "badptr" }.into())
        }
        "WeakFromRaw" => {
            if !made(w, a) || w.wraws[a as usize].is_empty() {
                return None;
            }
            go!();
            let p = w.wraws[a as usize].pop()?;
            let h = lib(|| unsafe { Weak::from_raw(p) });
            w.wroots[a as usize].push(h);
            Some("ok".into())
        }
        "IncStrong" => {
            if !made(w, a) || w.raws[a as usize].is_empty() {
                return None;
            }
            go!();
            if let Some(r) = clone_guard(w, a) {
                return Some(r);
            }
            let p = *w.raws[a as usize].last()?;
            lib(|| unsafe { Rc::increment_strong_count(p) });
            w.raws[a as usize].push(p);
            Some("ok".into())
        }
        "DecStrong" => {
            if !made(w, a) || w.raws[a as usize].is_empty() {
                return None;
            }
            go!();
            let p = w.raws[a as usize].pop()?;
            lib(|| unsafe { Rc::decrement_strong_count(p) });
            Some("unit".into())
        }
        "Misc" => {
            go!();
            let mine = misc_digest(w);
            let theirs = w.sworld.misc_digest();
            let mine_t = lib(|| misc_types_digest!(Rc, Weak));
            let theirs_t = stdworld::types_digest();
            Some(if !w.std_on || (mine == theirs && mine_t == theirs_t) { "same" } else { "differ" }.into())
        }
        "DropDetached" => {
            if !made(w, a) || w.detached[a as usize].is_none() {
                return None;
            }
            go!();
            let n = w.detached[a as usize].take()?;
            drop(n);
            Some("unit".into())
        }
        _ => None,
    }
}

/// `inc_strong` on this object would abort the process (strong is 0 or usize::MAX). Unless
/// the harness runs in child mode (C16) the call is not made: the abort is predicted from
/// the raw counter and reported as the call's result, and the script ends there.
fn would_abort(w: &World, o: u32) -> bool {
    if w.real_abort {
        return false;
    }
    let addr = w.objs[o as usize].addr;
    let st = unsafe { (addr as *const usize).read_volatile() };
    st == 0 || st == usize::MAX
}

/// Pre-flight of a call that increments a strong count: on a released allocation the library
/// would read freed memory (recorded as the illegal access it is, not performed); on a dead
/// object it would abort the process (predicted, see `would_abort`).
fn clone_guard(w: &mut World, o: u32) -> Option<String> {
    if is_freed(w.objs[o as usize].addr) {
        push_ub(w, "uaf", o);
        return Some("uaf".into());
    }
    if would_abort(w, o) {
        return Some("abort".into());
    }
    None
}

fn adopt_call(adopt: bool, p1: *const Rc<Node>, p2: *const Rc<Node>) {
    unsafe {
        track::ATTR_ON = true;
        track::ATTR = 0;
    }
    lib(|| unsafe {
        if adopt {
            Rc::adopt_unchecked(&*p1, &*p2);
        } else {
            Rc::unadopt(&*p1, &*p2);
        }
    });
    unsafe {
        track::ATTR_ON = false;
    }
}

fn top_call(w: &mut World, op: &Op) {
    reset_counters(w);
    let pre = exec(w, op, None, true);
    if pre.is_none() {
        w.skipped += 1;
        return; // not enabled in this world: nothing is called, nothing is logged
    }
    let mut opx = op.clone();
    if op.op == "MakeMut" || op.op == "MakeMutS" || op.op == "MakeMutP" {
        opx.b = pre.as_deref().unwrap_or("0").parse().unwrap_or(0);
    }
    let op = &opx;
    line_call(w, op);
    let r = catch_unwind(AssertUnwindSafe(|| exec(world(), op, None, false)));
    let w = world();
    let (ret, panicked) = match r {
        Ok(Some(s)) => (s, false),
        Ok(None) => ("disabled".to_string(), false),
        Err(e) => {
            if e.downcast_ref::<ClonePanic>().is_some() {
                // the payload's Clone panicked inside make_mut: no destructor was interrupted
                ("cpanic".to_string(), false)
            } else if e.downcast_ref::<PanicMarker>().is_some() {
                ("panic".to_string(), true)
            } else {
                let msg = if let Some(s) = e.downcast_ref::<&str>() {
                    s.to_string()
                } else if let Some(s) = e.downcast_ref::<String>() {
                    s.clone()
                } else {
                    "?".into()
                };
                let msg: String = msg.chars().filter(|c| c.is_ascii_alphanumeric() || *c == ' ').take(60).collect();
                // a panic raised by the library itself (not by a scripted payload); the message
                // goes to stderr, the trace carries the bare fact
                eprintln!("library panic: {}", msg);
                ("libpanic".to_string(), true)
            }
        }
    };
    unsafe {
        track::IN_LIB = 0;
    }
    w.dropdepth = 0;
    w.depth = 0;
    if ret == "abort" {
        w.aborted = true;
    }
    w.stdrep = if w.std_on && !panicked && ret != "abort" && ret != "uaf" {
        let r = w.sworld.exec(&op.op, op.a, op.b, &op.d.op);
        match r {
            Some(r) => w.sworld.report(&r),
            None => String::new(),
        }
    } else {
        String::new()
    };
    let seen = if w.ub.is_empty() && !w.quiet && !w.aborted { seen_json(w) } else { "[]".to_string() };
    line_ret(w, op, &ret, panicked, &seen);
}

fn nested_call(w: &mut World, op: &Op, me: Option<&Node>) {
    if exec(w, op, me, true).is_none() {
        return; // script not enabled: skipped silently (the model does the same)
    }
    w.depth += 1;
    line_call(w, op);
    let ret = exec(w, op, me, false).unwrap_or_else(|| "disabled".to_string());
    let w = world();
    line_ret(w, op, &ret, false, "[]");
    if ret == "abort" {
        // the process would be dead now: nothing after this point is recorded
        w.aborted = true;
        w.quiet = true;
    }
    w.depth -= 1;
}

// ---------------------------------------------------------------------------
// Script I/O

fn parse_op(v: &Value) -> Op {
    let g = |k: &str| v.get(k).and_then(Value::as_u64).unwrap_or(0) as u32;
    let d = v.get("d");
    let ds = |k: &str| d.and_then(|d| d.get(k)).and_then(Value::as_u64).unwrap_or(0) as u32;
    Op {
        op: v.get("op").and_then(Value::as_str).unwrap_or("").to_string(),
        a: g("a"),
        b: g("b"),
        d: Script {
            op: d.and_then(|d| d.get("op")).and_then(Value::as_str).unwrap_or("none").to_string(),
            x: ds("x"),
            y: ds("y"),
        },
    }
}

fn run_script(ops: &[Op], script_no: u64, layout: u64, out: &mut dyn Write) {
    let w = world();
    reset_world(w);
    w.layout_seed = layout;
    w.out.clear();
    let _ = writeln!(w.out, "{{\"k\":\"reset\",\"script\":{},\"layout\":{}}}", script_no, layout);
    unsafe {
        track::TRACK = true;
    }
    for op in ops {
        let w = world();
        top_call(w, op);
        if !w.ub.is_empty() || unsafe { track::NDOUBLE > 0 } || w.aborted {
            break; // illegal access or process abort: nothing after it is defined
        }
    }
    unsafe {
        track::TRACK = false;
    }
    let w = world();
    out.write_all(w.out.as_bytes()).unwrap();
    w.out.clear();
}

/// child mode (C16): one script, calls that abort the process are really made, every trace
/// line is flushed before the next library call so that the parent sees where the child died
fn cmd_child(args: &[String]) {
    let f = std::fs::File::open(&args[0]).expect("script file");
    let line = std::io::BufReader::new(f).lines().next().expect("one script").unwrap();
    let v: Value = serde_json::from_str(&line).expect("script json");
    let ops: Vec<Op> = v.as_array().expect("array").iter().map(parse_op).collect();
    let mut out = std::fs::File::create(&args[1]).expect("trace file");
    let w = world();
    reset_world(w);
    w.real_abort = true;
    w.out.clear();
    let _ = writeln!(w.out, "{{\"k\":\"reset\",\"script\":0,\"layout\":0}}");
    unsafe {
        track::TRACK = true;
        CHILD_OUT = Some(&mut out as *mut std::fs::File);
    }
    flush_child(w);
    for op in &ops {
        let w = world();
        top_call(w, op);
        flush_child(w);
        if !w.ub.is_empty() || unsafe { track::NDOUBLE > 0 } || w.aborted {
            break;
        }
    }
    unsafe {
        track::TRACK = false;
        CHILD_OUT = None;
    }
}

static mut CHILD_OUT: Option<*mut std::fs::File> = None;

fn flush_child(w: &mut World) {
    unsafe {
        if let Some(f) = CHILD_OUT {
            let _ = (*f).write_all(w.out.as_bytes());
            let _ = (*f).flush();
            w.out.clear();
        }
    }
}

fn cmd_replay(args: &[String]) {
    // replay <scripts.ndjson> <trace-out.ndjson> [layouts]
    let f = std::fs::File::open(&args[0]).expect("scripts file");
    let mut out = BufWriter::new(std::fs::File::create(&args[1]).expect("trace file"));
    let layouts: u64 = args.get(2).and_then(|s| s.parse().ok()).unwrap_or(1);
    let mut n = 0u64;
    for line in std::io::BufReader::new(f).lines() {
        let line = line.unwrap();
        if line.trim().is_empty() {
            continue;
        }
        let v: Value = serde_json::from_str(&line).expect("script json");
        let ops: Vec<Op> = v.as_array().expect("array").iter().map(parse_op).collect();
        for l in 0..layouts {
            run_script(&ops, n, l, &mut out);
        }
        n += 1;
        out.flush().unwrap();
    }
    eprintln!("replayed {} scripts x {} layouts, {} lines", n, layouts, world().lines);
}

// ---------------------------------------------------------------------------
// Random driver (implementation -> specification direction)

fn stored_count(w: &World, a: u32, b: u32) -> usize {
    if !intact(w, a) {
        return 0;
    }
    node(w, a).strong.borrow().iter().filter(|e| e.target == b).count()
}

/// adoptions of b recorded in a's table (Forward count), read from the library
fn recorded_count(w: &World, a: u32, b: u32) -> usize {
    let o = &w.objs[a as usize];
    if !o.made || !o.linit || is_freed(o.addr) {
        return 0;
    }
    let baddr = w.objs[b as usize].addr;
    unsafe { verif::links_snapshot::<Node>(o.addr) }
        .map(|v| v.iter().filter(|(k, p, _)| *k == 0 && *p == baddr).map(|(_, _, c)| *c).sum())
        .unwrap_or(0)
}

fn drive_script(rng: &mut SmallRng, len: usize, nobj: u32, profile: &str, script_no: u64, layout: u64, out: &mut dyn Write) -> Vec<Op> {
    let w = world();
    reset_world(w);
    w.layout_seed = layout;
    w.out.clear();
    let _ = writeln!(w.out, "{{\"k\":\"reset\",\"script\":{},\"layout\":{}}}", script_no, layout);
    unsafe {
        track::TRACK = true;
    }
    let strict = profile != "stale" && profile != "elide" && profile != "consume" && profile != "cpanic";
    let strict_adopt = profile != "stale";
    let weak = profile != "core" && profile != "stale";
    let consume = profile == "consume" || profile == "std" || profile == "cpanic";
    let stdp = profile == "std";
    let mut scripted = 0u32;
    let cons: &[&str] = &["Misc", "TryUnwrap", "GetMut", "MakeMut", "MakeMutS", "MakeMutP", "IntoRaw", "FromRaw", "IncStrong", "DecStrong", "DropDetached", "TryUnwrap"];
    let mut done: Vec<Op> = Vec::new();
    let order = profile == "order";
    let build: &[&str] = if stdp {
        &["New", "New", "CloneRoot", "CloneRoot", "Store", "Store", "Store", "CloneStored", "Downgrade", "StoreWeak", "Misc"]
    } else if order {
        &["New", "New", "CloneRoot", "CloneRoot", "AdoptStore", "AdoptStore", "AdoptStore", "AdoptSame"]
    } else {
        &["New", "New", "CloneRoot", "CloneRoot", "AdoptStore", "AdoptStore", "AdoptStore", "Store", "CloneStored", "Adopt", "AdoptSame"]
    };
    let mix: &[&str] = if stdp {
        &["CloneRoot", "CloneStored", "DropRoot", "DropRoot", "Store", "Take", "DropStored", "New", "Downgrade", "Upgrade", "UpgradeStored",
        "WeakClone", "WeakDrop", "StoreWeak", "TakeWeak", "Misc", "WeakIntoRaw", "WeakFromRaw"]
    } else if order {
        &["CloneRoot", "DropRoot", "DropRoot", "AdoptStore", "AdoptStore", "TakeUnadopt", "New", "Downgrade", "Upgrade", "AdoptSame",
        "UnadoptSame"]
    } else {
        &["CloneRoot", "CloneStored", "DropRoot", "DropRoot", "Store", "Take", "DropStored", "Adopt", "Unadopt", "AdoptSame",
        "UnadoptSame", "AdoptStore", "TakeUnadopt", "TakeUnadopt", "New"]
    };
    let wk: &[&str] = &["Downgrade", "Downgrade", "Upgrade", "UpgradeStored", "WeakClone", "WeakDrop", "StoreWeak", "TakeWeak", "WeakIntoRaw",
        "WeakFromRaw"];
    let tear: &[&str] = if stdp {
        &["DropRoot", "DropRoot", "DropRoot", "DropStored", "WeakDrop", "Upgrade", "DropDetached", "DecStrong", "FromRaw"]
    } else if order {
        &["DropRoot", "DropRoot", "DropRoot", "TakeUnadopt", "WeakDrop", "Upgrade"]
    } else {
        &["DropRoot", "DropRoot", "DropRoot", "DropStored", "TakeUnadopt", "WeakDrop", "Upgrade"]
    };
    let mut step = 0usize;
    let mut attempts = 0usize;
    while step < len && attempts < len * 30 {
        attempts += 1;
        let w = world();
        let n = (w.objs.len() - 1) as u32;
        let phase = step * 3 / len.max(1);
        let pool: &[&str] = match phase {
            0 => build,
            1 => {
                if consume && rng.gen_range(0..3) == 0 {
                    cons
                } else if weak && rng.gen_range(0..3) == 0 {
                    wk
                } else {
                    mix
                }
            }
            _ => {
                if consume && rng.gen_range(0..4) == 0 {
                    cons
                } else if rng.gen_range(0..4) == 0 {
                    mix
                } else {
                    tear
                }
            }
        };
        let name = pool[rng.gen_range(0..pool.len())];
        if name == "New" && n >= nobj {
            continue;
        }
        if n == 0 && name != "New" {
            continue;
        }
        let a = if n == 0 { 0 } else { rng.gen_range(1..=n) };
        let b = if n == 0 { 0 } else { rng.gen_range(1..=n) };
        let mut d = Script { op: "none".into(), x: 0, y: 0 };
        if name == "New" && stdp {
            let how = ["none", "none", "box", "from", "uninit", "pin"][rng.gen_range(0..6)];
            d = Script { op: how.into(), x: 0, y: 0 };
        }
        if name == "New" && scripted < 2 && rng.gen_range(0..2) == 0 {
            // destructor script from the profile's menu; targets may be objects created later
            let menu: &[&str] = match profile {
                "dtor10" => &["CloneRoot", "DropRoot", "Downgrade", "WeakDrop", "UpgradeWeak", "UpgradeStored", "Adopt", "Unadopt", "Take"],
                "dtor16" => &["CloneStored", "DropStored", "IncStrongStored"],
                "dtor05" => &["UpgradeWeak", "UpgradeStored", "DowngradeStored"],
                "panic" | "cpanic" => &["Panic"],
                _ => &[],
            };
            if !menu.is_empty() && ((profile != "panic" && profile != "cpanic") || scripted == 0) {
                let m = menu[rng.gen_range(0..menu.len())];
                let (x, y) = if m == "Panic" { (0, 0) } else { (rng.gen_range(1..=nobj), if m == "Adopt" || m == "Unadopt" { rng.gen_range(1..=nobj) } else { 0 }) };
                d = Script { op: m.into(), x, y };
                scripted += 1;
            }
        }
        let op = Op { op: name.to_string(), a: if name == "New" { n + 1 } else { a }, b: match name {
            "New" | "CloneRoot" | "DropRoot" | "AdoptSame" | "UnadoptSame" | "Downgrade" | "Upgrade" | "WeakClone" | "WeakDrop"
            | "WeakIntoRaw" | "WeakFromRaw" | "TryUnwrap" | "GetMut" | "MakeMut" | "MakeMutS" | "MakeMutP" | "IntoRaw" | "FromRaw" | "IncStrong" | "DecStrong" | "DropDetached" | "Misc" => 0,
            _ => b,
        }, d };
        if (name == "MakeMut" || name == "MakeMutS" || name == "MakeMutP") && n >= nobj {
            continue; // no identity left for the allocation make_mut may create
        }
        if (strict || strict_adopt) && n > 0 {
            // respect the contract of adopt_unchecked: never more records than stored handles
            // (profile "elide" may remove recorded handles without unadopt, but never over-records)
            let ok = match name {
                "Adopt" => recorded_count(w, a, b) < stored_count(w, a, b),
                "Take" | "DropStored" => !strict || recorded_count(w, a, b) < stored_count(w, a, b),
                _ => true,
            };
            if !ok {
                continue;
            }
        }
        if exec(w, &op, None, true).is_none() {
            continue;
        }
        done.push(op.clone());
        unsafe {
            if let Some(p) = &CUR_PATH {
                // the script in progress, on disk before the call: if the library kills the
                // process the parent finds the history that did it
                let _ = std::fs::write(p, op_json(&done));
            }
        }
        top_call(w, &op);
        step += 1;
        let w = world();
        if !w.ub.is_empty() || unsafe { track::NDOUBLE > 0 } || w.aborted {
            break;
        }
    }
    unsafe {
        track::TRACK = false;
    }
    let w = world();
    out.write_all(w.out.as_bytes()).unwrap();
    w.out.clear();
    done
}

fn op_json(ops: &[Op]) -> String {
    let mut s = String::from("[");
    for (i, o) in ops.iter().enumerate() {
        if i > 0 {
            s.push(',');
        }
        let _ = write!(
            s,
            "{{\"op\":\"{}\",\"a\":{},\"b\":{},\"d\":{{\"op\":\"{}\",\"x\":{},\"y\":{}}}}}",
            o.op,
            o.a,
            o.b,
            if o.d.op.is_empty() { "none" } else { &o.d.op },
            o.d.x,
            o.d.y
        );
    }
    s.push(']');
    s
}

static mut CUR_PATH: Option<String> = None;

fn cmd_drive(args: &[String]) {
    // drive <seed> <nscripts> <len> <nobj> <profile> <scripts-out> <trace-out>
    let seed: u64 = args[0].parse().unwrap();
    let nscripts: u64 = args[1].parse().unwrap();
    let len: usize = args[2].parse().unwrap();
    let nobj: u32 = args[3].parse().unwrap();
    let profile = args[4].clone();
    let mut sout = BufWriter::new(std::fs::File::create(&args[5]).expect("scripts out"));
    let mut tout = BufWriter::new(std::fs::File::create(&args[6]).expect("trace out"));
    unsafe {
        CUR_PATH = Some(format!("{}.cur", args[5]));
    }
    let mut rng = SmallRng::seed_from_u64(seed);
    let layouts: u64 = args.get(7).and_then(|s| s.parse().ok()).unwrap_or(1);
    for n in 0..nscripts {
        let ops = drive_script(&mut rng, len, nobj, &profile, n, 0, &mut tout);
        writeln!(sout, "{}", op_json(&ops)).unwrap();
        // the same history again under other heap layouts (C09)
        for l in 1..layouts {
            run_script(&ops, n, l, &mut tout);
        }
        tout.flush().unwrap();
    }
    eprintln!("drove {} scripts, {} lines", nscripts, world().lines);
}

// ---------------------------------------------------------------------------
// Scale mode (C15): large groups on a small fixed stack, aggregated counters only

fn thread_cpu_us() -> u64 {
    // CLOCK_THREAD_CPUTIME_ID = 3 on Linux
    #[repr(C)]
    struct Ts {
        sec: i64,
        nsec: i64,
    }
    extern "C" {
        fn clock_gettime(clk: i32, ts: *mut Ts) -> i32;
    }
    let mut ts = Ts { sec: 0, nsec: 0 };
    unsafe {
        clock_gettime(3, &mut ts);
    }
    (ts.sec as u64) * 1_000_000 + (ts.nsec as u64) / 1000
}

/// Builds the shape with `n` objects (every stored handle adopted), keeps one outside handle,
/// drops it and reports what the collection cost. Runs on the calling thread.
fn scale_one(shape0: &str, n: usize, sink_on: bool) -> String {
    // "<shape>+held": a second outside handle (to a member in the middle) survives the first
    // drop: nothing may be destroyed by it (C01 at scale); the group dies with the second drop
    // "+near": the held member is close to the member whose handle is dropped (5 steps away)
    let near = shape0.ends_with("+near");
    // "+same": the surviving handle is a second handle to the very member whose handle is dropped
    let same = shape0.ends_with("+same");
    let held = shape0.ends_with("+held") || near || same;
    let shape = shape0.trim_end_matches("+held").trim_end_matches("+near").trim_end_matches("+same");
    let w = world();
    reset_world(w);
    w.quiet = true;
    verif::set_sink(if sink_on { Some(sink_scale) } else { None });
    unsafe {
        SCALE = ScaleCnt::default();
    }
    let mk = |id: usize| Rc::new(Node { id: id as u32, canary: MAGIC ^ id as u64, strong: RefCell::new(Vec::new()), weak: RefCell::new(Vec::new()) });
    let mut nodes: Vec<Option<Rc<Node>>> = (1..=n).map(|i| Some(mk(i))).collect();
    let ptrs: Vec<*const Node> = nodes.iter().map(|h| Rc::as_ptr(h.as_ref().unwrap())).collect();
    // a borrowed handle to node a that owns no count
    let tmp = |a: usize| ManuallyDrop::new(unsafe { Rc::from_raw(ptrs[a]) });
    let mut edges: Vec<(usize, usize)> = Vec::new();
    match shape {
        "ring" => {
            for i in 0..n {
                edges.push((i, (i + 1) % n));
            }
        }
        "chords" => {
            for i in 0..n {
                edges.push((i, (i + 1) % n));
                if i % 3 == 0 {
                    edges.push((i, (i * 7 + 5) % n));
                }
                if i % 5 == 0 {
                    edges.push((i, i)); // self-adoption through a clone
                }
            }
        }
        "wheel" => {
            // hub 0 adopts every rim node, rim nodes form a ring and adopt the hub back
            for i in 1..n {
                edges.push((0, i));
                edges.push((i, if i + 1 < n { i + 1 } else { 1 }));
                edges.push((i, 0));
            }
        }
        "star" => {
            // hub 0 adopts every spoke and every spoke adopts the hub back; no rim
            for i in 1..n {
                edges.push((0, i));
                edges.push((i, 0));
            }
        }
        "clique" => {
            for i in 0..n {
                for j in 0..n {
                    if i != j {
                        edges.push((i, j));
                    }
                }
            }
        }
        "chain" => {
            // acyclic: 0 adopts 1 adopts 2 ...; nothing is a group, every object dies by the
            // plain last-handle path (recursively, which is why this shape gets a large stack)
            for i in 0..n - 1 {
                edges.push((i, i + 1));
            }
        }
        "chain2ring" => {
            // an acyclic chain of n/10 adopters in front of a ring of the remaining objects
            let k = (n / 10).max(1);
            for i in 0..k {
                edges.push((i, i + 1));
            }
            for i in k..n {
                edges.push((i, if i + 1 < n { i + 1 } else { k }));
            }
        }
        _ => {}
    }
    let links = edges.len();
    // Each node except node 0 gives its ORIGINAL handle to one incoming edge, so that no
    // outside handle has to be dropped (and traced) one by one before the measured drop.
    let mut carrier = vec![usize::MAX; n];
    for (k, &(_, b)) in edges.iter().enumerate() {
        if b != 0 && carrier[b] == usize::MAX {
            carrier[b] = k;
        }
    }
    let store = |a: usize, h: Rc<Node>| {
        let this = tmp(a);
        unsafe {
            Rc::adopt_unchecked(&*this, &h);
            (*ptrs[a]).strong.borrow_mut().push(SH { h: ManuallyDrop::new(h), owner: 0, target: 0 });
        }
    };
    for (k, &(a, b)) in edges.iter().enumerate() {
        if carrier[b] != k {
            let h = Rc::clone(&*tmp(b));
            store(a, h);
        }
    }
    if shape == "chords" {
        for i in (0..n).step_by(11) {
            let this = tmp(i);
            unsafe {
                Rc::adopt_unchecked(&*this, &*this); // same-handle self-adoption (no effect)
            }
        }
    }
    for (k, &(a, b)) in edges.iter().enumerate() {
        if carrier[b] == k {
            let h = nodes[b].take().unwrap();
            store(a, h);
        }
    }
    // the price of tracing and of reclaiming a 3-ring, in bytes requested from the allocator
    let small = || -> u64 {
        let r: Vec<Rc<Node>> = (0..3).map(|i| mk(n + 1 + i)).collect();
        for i in 0..3 {
            let h = Rc::clone(&r[(i + 1) % 3]);
            unsafe {
                Rc::adopt_unchecked(&r[i], &h);
                (*Rc::as_ptr(&r[i])).strong.borrow_mut().push(SH { h: ManuallyDrop::new(h), owner: 0, target: 0 });
            }
        }
        let mut r = r;
        let a = r.remove(0);
        drop(r);
        let b0 = unsafe { track::TOTAL_BYTES };
        let h2 = Rc::clone(&a);
        drop(h2); // traced, alive
        drop(a); // traced, reclaimed
        unsafe { track::TOTAL_BYTES - b0 }
    };
    unsafe {
        SCALE.quiet_hdrop = true;
    }
    let small_before = small();
    let keep = nodes[0].take().unwrap();
    let weak0 = Rc::downgrade(&keep);
    let weakl = Rc::downgrade(&*tmp(n - 1));
    let extra = if held { Some(Rc::clone(&*tmp(if same { 0 } else if near { 5.min(n - 1) } else { n / 2 }))) } else { None };
    unsafe {
        SCALE = ScaleCnt::default();
        SCALE.quiet_hdrop = true;
    }
    let mut premature = 0u64;
    let mut t0 = thread_cpu_us();
    drop(keep); // the orphaning drop (or, with "+held", a drop that must not collect anything)
    if let Some(x) = extra {
        premature = unsafe { SCALE.nd };
        let intact = x.canary == (MAGIC ^ x.id as u64) && weak0.upgrade().is_some() && weakl.upgrade().is_some();
        if !intact {
            premature += 1;
        }
        unsafe {
            SCALE = ScaleCnt::default();
            SCALE.quiet_hdrop = true;
        }
        t0 = thread_cpu_us();
        drop(x); // now the group is orphaned
    }
    let cpu = thread_cpu_us() - t0;
    let c = unsafe { SCALE };
    let alive = weak0.upgrade().is_some() || weakl.upgrade().is_some();
    let small_after = small();
    verif::set_sink(Some(sink));
    format!(
        "{{\"k\":\"scale\",\"shape\":\"{}\",\"n\":{},\"links\":{},\"ntrace\":{},\"npop\":{},\"nvisit\":{},\"maxdepth\":{},\"nd\":{},\"alive\":{},\"premature\":{},\"cpu_us\":{},\"small_before\":{},\"small_after\":{}}}",
        shape0, n, links, c.ntrace, c.npop, c.nvisit, c.maxdepth, c.nd, alive, premature, cpu, small_before, small_after
    )
}

#[derive(Clone, Copy, Default)]
struct ScaleCnt {
    ntrace: u64,
    npop: u64,
    nvisit: u64,
    depth: i64,
    maxdepth: i64,
    nd: u64,
    quiet_hdrop: bool,
}
static mut SCALE: ScaleCnt = ScaleCnt { ntrace: 0, npop: 0, nvisit: 0, depth: 0, maxdepth: 0, nd: 0, quiet_hdrop: false };

fn sink_scale(e: Event) {
    unsafe {
        match e {
            Event::TraceStart(_) => SCALE.ntrace += 1,
            Event::TracePop(_) => SCALE.npop += 1,
            Event::TraceVisit(_) => SCALE.nvisit += 1,
            Event::DropEnter(_) => {
                SCALE.depth += 1;
                if SCALE.depth > SCALE.maxdepth {
                    SCALE.maxdepth = SCALE.depth;
                }
            }
            Event::DropExit(_) => SCALE.depth -= 1,
            _ => {}
        }
    }
}

fn cmd_scale(args: &[String]) {
    // scale <out> <stack_kib> <shape:n> ...   -- each shape on its own small-stack thread
    let mut out = BufWriter::new(std::fs::File::create(&args[0]).expect("out"));
    let stack_kib: usize = args[1].parse().unwrap();
    for spec in &args[2..] {
        let (shape, n) = spec.split_once(':').unwrap();
        let n: usize = n.parse().unwrap();
        let shape = shape.to_string();
        // announce before running: if the thread overflows its stack the process dies here
        writeln!(out, "{{\"k\":\"scale_begin\",\"shape\":\"{}\",\"n\":{},\"stack_kib\":{}}}", shape, n, stack_kib).unwrap();
        out.flush().unwrap();
        let sh = shape.clone();
        let line = std::thread::Builder::new()
            .stack_size(stack_kib * 1024)
            .spawn(move || scale_one(&sh, n, true))
            .unwrap()
            .join()
            .unwrap_or_else(|_| format!("{{\"k\":\"scale_panic\",\"shape\":\"{}\",\"n\":{}}}", shape, n));
        writeln!(out, "{}", line).unwrap();
        out.flush().unwrap();
    }
}

fn main() {
    verif::set_sink(Some(sink));
    // silence the default panic message for scripted panics
    std::panic::set_hook(Box::new(|_| {}));
    let args: Vec<String> = std::env::args().collect();
    match args.get(1).map(String::as_str) {
        Some("replay") => cmd_replay(&args[2..]),
        Some("drive") => cmd_drive(&args[2..]),
        Some("scale") => cmd_scale(&args[2..]),
        Some("child") => cmd_child(&args[2..]),
        _ => {
            eprintln!("usage: cactus-harness replay <scripts> <out> [layouts]");
            std::process::exit(2);
        }
    }
}
