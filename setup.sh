#!/bin/sh
# Build the framework from files on disk only (offline).
set -e
cd /verif/harness
cp -f /repo/rust-toolchain rust-toolchain 2>/dev/null || true
CARGO_NET_OFFLINE=true cargo build --release
cd /verif/spec
tla-sany MC.tla >/dev/null
tla-sany MCTrace.tla >/dev/null
echo "setup ok"
# binding demonstration (DESIGN.md 4.5 / 13): corrupted traces must be rejected; informational
python3 /verif/tools/selftest.py || echo "WARNING: selftest expectations failed"
