#!/bin/sh
# Build the framework from files on disk only (offline).
set -e
cd /verif/harness
cp -f /repo/rust-toolchain rust-toolchain 2>/dev/null || true
CARGO_NET_OFFLINE=true cargo build --release
cd /verif/spec
tla-sany MC.tla >/dev/null
tla-sany MCTrace.tla >/dev/null
echo "setup ok"
