--------------------------------- MODULE MC ---------------------------------
(* TLC-only material shared by all configurations: constant definitions,   *)
(* the VIEW that hides observation variables, the history variable and the *)
(* printer that turns explored behaviours into replay scripts.             *)
EXTENDS CactusRef, Json

CONSTANTS EmitCover          \* K > 0: print a script line for about 1/K of the explored (state, call)
                             \* transitions (K = 1: all of them); 0: none

CONSTANTS EmitOut            \* 1: print <<"OUT", call sequence, state after the call>> at every return (C09)

VARIABLE hist                \* sequence of top-level public calls (hidden by VIEW)
VARIABLE std                 \* C07: the reference model of std::rc (StdRc.tla) run in lock step

CONSTANTS TrackStd           \* 1: maintain `std` and compare at every return
S == INSTANCE StdRc

OpsCore == {"New", "CloneRoot", "CloneStored", "DropRoot", "Store", "Take", "DropStored",
            "Adopt", "Unadopt", "AdoptSame", "UnadoptSame", "AdoptStore", "TakeUnadopt"}
OpsWeak == OpsCore \cup {"Downgrade", "Upgrade", "UpgradeStored", "WeakClone", "WeakDrop",
                         "StoreWeak", "TakeWeak", "WeakIntoRaw", "WeakFromRaw"}

OpsWeakQ == {"New", "CloneRoot", "DropRoot", "AdoptStore", "TakeUnadopt", "DropStored", "Store",
             "Downgrade", "Upgrade", "UpgradeStored", "WeakDrop", "StoreWeak"}
CapsS == [strong |-> 2, stored |-> 1, rec |-> 1, weak |-> 1, storedW |-> 1, over |-> TRUE, elide |-> TRUE, scripted |-> 1, edges |-> 99]
CapsE == [strong |-> 2, stored |-> 1, rec |-> 1, weak |-> 1, storedW |-> 1, over |-> FALSE, elide |-> TRUE, scripted |-> 1, edges |-> 99]
CapsCE == [strong |-> 2, stored |-> 1, rec |-> 1, weak |-> 1, storedW |-> 1, over |-> FALSE, elide |-> TRUE, scripted |-> 1, edges |-> 99]
CapsCE3 == [strong |-> 3, stored |-> 1, rec |-> 1, weak |-> 1, storedW |-> 1, over |-> FALSE, elide |-> TRUE, scripted |-> 1, edges |-> 99]
CapsE3 == [strong |-> 3, stored |-> 2, rec |-> 2, weak |-> 1, storedW |-> 1, over |-> FALSE, elide |-> TRUE, scripted |-> 1, edges |-> 99]
CapsS3 == [strong |-> 3, stored |-> 2, rec |-> 2, weak |-> 1, storedW |-> 1, over |-> TRUE, elide |-> TRUE, scripted |-> 1, edges |-> 99]
Caps2 == [strong |-> 3, stored |-> 2, rec |-> 2, weak |-> 1, storedW |-> 1, over |-> FALSE, elide |-> FALSE, scripted |-> 1, edges |-> 99]
CapsQ == [strong |-> 2, stored |-> 1, rec |-> 1, weak |-> 1, storedW |-> 1, over |-> FALSE, elide |-> FALSE, scripted |-> 1, edges |-> 99]
CapsM == [strong |-> 3, stored |-> 1, rec |-> 1, weak |-> 1, storedW |-> 1, over |-> FALSE, elide |-> FALSE, scripted |-> 1, edges |-> 99]
CapsW == [strong |-> 2, stored |-> 1, rec |-> 1, weak |-> 1, storedW |-> 1, over |-> FALSE, elide |-> FALSE, scripted |-> 1, edges |-> 99]
CapsWM == [strong |-> 2, stored |-> 1, rec |-> 1, weak |-> 2, storedW |-> 1, over |-> FALSE, elide |-> FALSE, scripted |-> 1, edges |-> 99]
CapsT == [strong |-> 2, stored |-> 1, rec |-> 1, weak |-> 1, storedW |-> 1, over |-> FALSE, elide |-> FALSE, scripted |-> 1, edges |-> 99]
CapsWT == [strong |-> 2, stored |-> 1, rec |-> 1, weak |-> 1, storedW |-> 1, over |-> FALSE, elide |-> FALSE, scripted |-> 1, edges |-> 99]
Caps3 == [strong |-> 3, stored |-> 1, rec |-> 1, weak |-> 1, storedW |-> 1, over |-> FALSE, elide |-> FALSE, scripted |-> 1, edges |-> 99]
VPinned == [bust |-> "out", loop |-> "split", consume |-> "ignore"]
VFixed  == [bust |-> "owned", loop |-> "ignored", consume |-> "purge"]
VFixAB  == [bust |-> "owned", loop |-> "ignored", consume |-> "ignore"]
VFixA   == [bust |-> "owned", loop |-> "split", consume |-> "ignore"]
MenuPlain == {NoScript}
Sc(o, i, j) == [op |-> o, x |-> i, y |-> j]
MenuC16 == {NoScript} \cup {Sc(o, i, 0) : o \in {"CloneStored", "DropStored", "IncStrongStored"}, i \in Obj}
MenuC05 == {NoScript} \cup {Sc(o, i, 0) : o \in {"UpgradeWeak", "UpgradeStored", "DowngradeStored"}, i \in Obj}
MenuC10 == {NoScript} \cup {Sc(o, i, 0) : o \in {"CloneRoot", "DropRoot", "Downgrade", "WeakDrop", "UpgradeWeak", "UpgradeStored", "Take"}, i \in Obj}
                      \cup {Sc(o, i, j) : o \in {"Adopt", "Unadopt"}, i \in Obj, j \in Obj}
MenuC10Q == {NoScript} \cup {Sc(o, i, 0) : o \in {"CloneRoot", "DropRoot", "UpgradeWeak"}, i \in Obj}
                       \cup {Sc("Adopt", i, j) : i \in Obj, j \in Obj}
MenuPanic == {NoScript, Sc("Panic", 0, 0)}
\* consuming calls (try_unwrap, make_mut with a good and with a panicking Clone, raw counts) on
\* objects whose destructors may panic
OpsCPanic == {"New", "CloneRoot", "DropRoot", "AdoptStore", "Downgrade", "WeakDrop", "Upgrade",
              "TryUnwrap", "MakeMut", "MakeMutS", "MakeMutP", "IntoRaw", "FromRaw", "DecStrong", "DropDetached"}
OpsCPanicT == {"New", "CloneRoot", "DropRoot", "AdoptStore", "Downgrade", "TryUnwrap", "MakeMutS", "MakeMutP", "DropDetached"}
OpsConsume == {"New", "CloneRoot", "DropRoot", "AdoptStore", "TakeUnadopt", "Store", "Take", "DropStored", "Downgrade", "WeakDrop", "Upgrade",
               "TryUnwrap", "GetMut", "MakeMut", "MakeMutS", "MakeMutP", "IntoRaw", "FromRaw", "IncStrong", "DecStrong", "DropDetached"}
VPurge == [bust |-> "owned", loop |-> "ignored", consume |-> "purge"]
OpsOrder == {"New", "CloneRoot", "DropRoot", "AdoptStore", "TakeUnadopt", "Downgrade", "WeakDrop", "Upgrade",
             "AdoptSame", "UnadoptSame"}
CapsO == [strong |-> 3, stored |-> 2, rec |-> 2, weak |-> 1, storedW |-> 1, over |-> FALSE, elide |-> FALSE, scripted |-> 1, edges |-> 99]
CapsO3 == [strong |-> 2, stored |-> 1, rec |-> 1, weak |-> 0, storedW |-> 0, over |-> FALSE, elide |-> FALSE, scripted |-> 1, edges |-> 99]
OpsStd == {"New", "CloneRoot", "CloneStored", "DropRoot", "Store", "Take", "DropStored",
           "Downgrade", "Upgrade", "UpgradeStored", "WeakClone", "WeakDrop", "StoreWeak", "TakeWeak",
           "TryUnwrap", "GetMut", "MakeMut", "MakeMutS", "MakeMutP", "IntoRaw", "FromRaw", "IncStrong", "DecStrong", "DropDetached",
           "WeakIntoRaw", "WeakFromRaw"}
OpsStdM == OpsStd \cup {"Misc"}
OpsStdQ == {"New", "CloneRoot", "DropRoot", "Store", "DropStored", "Downgrade", "Upgrade", "WeakDrop", "StoreWeak",
            "TryUnwrap", "GetMut", "MakeMut", "IntoRaw", "FromRaw", "DecStrong", "DropDetached"}
OpsGraph == {"New", "Edge", "DropRoot"}
CapsG == [strong |-> 99, stored |-> 1, rec |-> 1, weak |-> 0, storedW |-> 0, over |-> FALSE, elide |-> FALSE, scripted |-> 1, edges |-> 99]
CapsG6 == [strong |-> 99, stored |-> 1, rec |-> 1, weak |-> 0, storedW |-> 0, over |-> FALSE, elide |-> FALSE, scripted |-> 1, edges |-> 6]
CapsG7 == [strong |-> 99, stored |-> 1, rec |-> 1, weak |-> 0, storedW |-> 0, over |-> FALSE, elide |-> FALSE, scripted |-> 1, edges |-> 7]
CapsG2 == [strong |-> 99, stored |-> 2, rec |-> 2, weak |-> 0, storedW |-> 0, over |-> FALSE, elide |-> FALSE, scripted |-> 1, edges |-> 99]
OpsBuild == {"New", "CloneRoot", "DropRoot", "AdoptStore", "TakeUnadopt", "Store"}
CapsB == [strong |-> 2, stored |-> 1, rec |-> 1, weak |-> 0, storedW |-> 0, over |-> FALSE, elide |-> FALSE, scripted |-> 1, edges |-> 99]
OpsWeak3 == {"New", "CloneRoot", "DropRoot", "AdoptStore", "Downgrade", "StoreWeak", "WeakDrop", "Upgrade"}
OpsDtorT == {"New", "CloneRoot", "DropRoot", "AdoptStore"}
OpsDtorW == OpsDtorT \cup {"Downgrade"}
OpsCoreT == {"New", "CloneRoot", "DropRoot", "AdoptStore", "DropStored", "Take"}
OpsStdT  == {"New", "CloneRoot", "DropRoot", "Store", "Downgrade", "WeakDrop", "TryUnwrap", "MakeMut", "DropDetached"}
OpsDtorQ == {"New", "CloneRoot", "DropRoot", "AdoptStore", "Downgrade", "StoreWeak"}
OpsCoreQ == {"New", "CloneRoot", "DropRoot", "Store", "Take", "DropStored", "AdoptStore", "TakeUnadopt", "Adopt"}
OpsConsumeQ == {"New", "CloneRoot", "DropRoot", "AdoptStore", "Downgrade", "WeakDrop",
                "TryUnwrap", "MakeMut", "IntoRaw", "FromRaw", "DecStrong", "DropDetached"}
CapsL == [strong |-> 4, stored |-> 2, rec |-> 2, weak |-> 1, storedW |-> 1, over |-> FALSE, elide |-> FALSE, scripted |-> 1, edges |-> 99]
OpsDtor == {"New", "CloneRoot", "DropRoot", "Store", "AdoptStore", "TakeUnadopt", "DropStored",
            "Downgrade", "WeakDrop", "StoreWeak", "Upgrade"}

MCInit == Init /\ hist = <<>> /\ std = S!Std0

CallRec == [op |-> ob'.call.op, a |-> ob'.call.a, b |-> ob'.call.b,
            d |-> IF ob'.call.op = "New" THEN led'.dtor[ob'.call.a] ELSE NoScript]
\* what a program can observe of the state after a call, without the order of destruction
\* inside the call (C09: this must be a function of the call sequence alone)
Proj(h, x) == [mem |-> h.mem, strong |-> h.strong, weak |-> h.weak, vinit |-> h.vinit,
               links |-> [o \in Obj |-> {<<k[1], k[2], h.links[o][k]>> : k \in {k \in Key : h.links[o][k] > 0}}],
               nd |-> x.nd, nf |-> x.nf, ub |-> x.ub, ret |-> x.ret,
               dset |-> {x.dlog[i] : i \in 1..Len(x.dlog)}]
\* what std::rc's public API would show of the library's state: the refinement mapping of C07
AbsView(h, x) ==
  [sc   |-> [o \in Obj |-> IF h.mem[o] = "alloc" /\ h.strong[o] # UNINIT THEN h.strong[o] ELSE 0],
   wc   |-> [o \in Obj |-> IF h.mem[o] = "alloc" /\ h.strong[o] # UNINIT /\ h.strong[o] > 0 THEN h.weak[o] - 1 ELSE 0],
   live |-> [o \in Obj |-> h.mem[o] = "alloc" /\ h.vinit[o]],
   mem  |-> h.mem,
   dlog |-> x.dlog,
   ret  |-> x.ret]
C07 == TrackStd = 1 /\ Quiescent /\ ctl.mode = "run" => S!StdView(std) = AbsView(heap, ob)

MCNext ==
  \/ /\ Call
     /\ std' = IF TrackStd = 1 THEN S!StdApply(std, led, ob'.call.op, ob'.call.a, ob'.call.b) ELSE std
     /\ hist' = Append(hist, CallRec)
     /\ (EmitOut = 1 /\ ctl'.stack = <<>>) => PrintT(<<"OUT", ToJson(hist'), ToJson(Proj(heap', ob')), ToJson(ob'.dlog)>>)
     /\ (EmitCover > 0 /\ RandomElement(1..EmitCover) = 1) => PrintT(<<"SCRIPT", ToJson(hist')>>)
  \/ /\ Micro
     /\ hist' = hist /\ std' = std
     \* behaviours that end in a process abort are printed (sampled) as scripts for child mode
     /\ (ctl'.mode = "aborted" /\ RandomElement(1..10) = 1) => PrintT(<<"ABORT", ToJson(hist)>>)
     /\ (EmitOut = 1 /\ ctl'.stack = <<>>) => PrintT(<<"OUT", ToJson(hist), ToJson(Proj(heap', ob')), ToJson(ob'.dlog)>>)

MCSpec == MCInit /\ [][MCNext]_<<vars, hist, std>>

\* fingerprint: everything that influences behaviour or a property
View == <<heap, led,
          [nd |-> ob.nd, nf |-> ob.nf, ub |-> ob.ub, must |-> ob.must, flags |-> ob.flags, dcset |-> ob.dcset,
           empty0 |-> ob.empty0],
          ctl, std>>

\* invariants that print the call sequence of a counterexample as a replayable script
Cex(name, P) == P \/ (PrintT(<<"CEX", name, ToJson(hist)>>) /\ FALSE)
MC_C01 == Cex("C01", C01)
MC_C02 == Cex("C02", C02)
MC_C03 == Cex("C03", C03)
MC_C04 == Cex("C04", C04)
MC_C05 == Cex("C05", C05)
MC_C06 == Cex("C06", C06)
MC_C08 == Cex("C08", C08)
MC_C14 == Cex("C14", C14)
MC_C16 == Cex("C16", C16)
\* every call returns: a library frame on the stack can always take its next micro-step
MC_Progress == Cex("Progress", (ctl.mode = "run" /\ ctl.stack # <<>>) => ENABLED Micro)
MC_C07 == Cex("C07", C07)
MC_C15 == Cex("C15", C15)
MC_C12 == Cex("C12", C12 /\ C01 /\ C03 /\ C05)
MC_C13 == Cex("C13", C13)
MC_C13x == Cex("C13x", C13x)
\* C10: the guarantees C01-C06 with re-entrant destructors, and no internal borrow conflict
MC_C10 == Cex("C10", C01 /\ C02 /\ C03 /\ C04 /\ C05 /\ C06)
\* C11: a panicking destructor: nothing dies twice, nothing reachable is harmed, Weak reports dead
MC_C11 == Cex("C11", C01 /\ C02 /\ C05 /\ C06 /\ C08 /\ ctl.mode # "aborted")

\* simulation mode: a behaviour is cut (and printed as one script) after SimLen calls
CONSTANTS SimLen
SimStop == \/ Len(hist) < SimLen \/ ~Quiescent
           \/ (PrintT(<<"SCRIPT", ToJson(hist)>>) /\ FALSE)

\* stop exploring below a terminal mode
Live2 == ctl.mode = "run"
=============================================================================
