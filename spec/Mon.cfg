CONSTANTS
  NObj = 3
  Ops <- OpsAll
  Caps <- CapsBig
  Variant <- VFixed
  DtorMenu <- MenuAny
  Props <- PropsAll
INIT MonInit
NEXT MonNext
POSTCONDITION MonAccepted
CHECK_DEADLOCK FALSE
