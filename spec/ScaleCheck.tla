----------------------------- MODULE ScaleCheck -----------------------------
(***************************************************************************)
(* C15 on groups far beyond what TLC can enumerate: the harness builds      *)
(* rings / rings with chords and self-adoptions / wheels / cliques of N     *)
(* objects, drops the last outside handle on a thread with a small fixed    *)
(* stack and logs aggregated counters (ndjson).  This module has TLC        *)
(* evaluate, for every logged run, the discrete bounds the specification    *)
(* implies: one trace, every object visited at most once, worklist pops     *)
(* bounded by adoptions + 1, Rc::drop nesting independent of N, the whole   *)
(* group destroyed; plus a generous bound on how the CPU time per adoption   *)
(* of a wide fan-out shape grows with its size (linearity as self-scaling). *)
(***************************************************************************)
EXTENDS Integers, Sequences, TLC, Json, IOUtils

Rec == ndJsonDeserialize(IOEnv.TRACE)
Which == IOEnv.SCALEPROP        \* "C15": every bound; "C01": nothing premature; "C03": everything collected

VARIABLES l, bad
vars == <<l, bad>>

ChainShapes == {"chain", "chain2ring"}
MaxDepth == 3          \* Rc::drop -> value -> inert nested Rc::drop
RatioX10 == 40         \* per-adoption CPU time of the 60000-wheel <= 4 x that of the 5000-wheel

Ok(ln) ==
  CASE ln.k = "scale" ->
         /\ Which \in {"C15", "C03"} => ln.nd = ln.n /\ ~ln.alive
         /\ Which \in {"C15", "C01"} => ln.premature = 0   \* "+held" runs: nothing dies while a member is held
         /\ Which = "C15" /\ ln.shape \notin ChainShapes =>
              /\ ln.ntrace = 1
              /\ ln.nvisit <= ln.n
              /\ ln.npop <= ln.links + 1
              /\ ln.maxdepth <= MaxDepth
              /\ ln.ratio_x10 <= RatioX10
         \* acyclic adopter chains (alone, or in front of a ring) die by the plain last-handle
         \* path, one inside the other (that recursion is Rust's, not the collector's: these
         \* shapes run on a large stack); the work of the whole teardown stays linear
         /\ Which = "C15" /\ ln.shape \in ChainShapes =>
              /\ ln.nvisit <= 4 * (ln.n + ln.links)
              /\ ln.npop <= 4 * (ln.n + ln.links)
         \* the price of a small group does not depend on what was collected before it
         /\ Which = "C15" => ln.small_after <= 2 * ln.small_before + 4096
    [] ln.k = "scale_begin" -> TRUE
    [] ln.k \in {"scale_died", "scale_panic"} -> FALSE     \* stack overflow / crash
    [] OTHER -> TRUE

Init == l = 1 /\ bad = {}
Next == /\ l <= Len(Rec)
        /\ l' = l + 1
        /\ bad' = IF Ok(Rec[l]) THEN bad ELSE bad \cup {l}
        /\ (l' = Len(Rec) + 1) => PrintT(<<"SCALE-BAD", ToJson(bad')>>)
Accepted == TLCGet("stats").diameter - 1 = Len(Rec)
=============================================================================
