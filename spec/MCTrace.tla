------------------------------ MODULE MCTrace ------------------------------
(* TLC-only constants for trace validation (Monitor and Conform). *)
EXTENDS CactusRefTrace

OpsAll == {"New", "CloneRoot", "CloneStored", "DropRoot", "Store", "Take", "DropStored",
           "Adopt", "Unadopt", "AdoptSame", "UnadoptSame", "AdoptStore", "TakeUnadopt",
           "Downgrade", "Upgrade", "UpgradeStored", "WeakClone", "WeakDrop", "StoreWeak", "TakeWeak",
           "TryUnwrap", "GetMut", "MakeMut", "MakeMutS", "MakeMutP", "DowngradeStored", "IncStrongStored", "IntoRaw", "FromRaw", "IncStrong", "DecStrong", "DropDetached", "Misc", "WeakIntoRaw", "WeakFromRaw"}
CapsBig == [strong |-> 100000, stored |-> 100000, rec |-> 100000, weak |-> 100000, storedW |-> 100000, over |-> TRUE, elide |-> TRUE, scripted |-> 100000, edges |-> 100000]
VPinned == [bust |-> "out", loop |-> "split", consume |-> "ignore"]
VFixed  == [bust |-> "owned", loop |-> "ignored", consume |-> "purge"]
VFixAB  == [bust |-> "owned", loop |-> "ignored", consume |-> "ignore"]
VFixA   == [bust |-> "owned", loop |-> "split", consume |-> "ignore"]
MenuAny == {NoScript}
PropsAll == {"C07", "C09", "C01", "C02", "C03", "C04", "C05", "C06", "C08", "C10", "C11", "C12", "C13", "C14", "C15", "C16"}
VPurge == [bust |-> "owned", loop |-> "ignored", consume |-> "purge"]
=============================================================================
