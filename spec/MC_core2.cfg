CONSTANTS
  NObj = 2
  Ops <- OpsCore
  Caps <- CapsQ
  Variant <- VFixed
  DtorMenu <- MenuPlain
  EmitCover = FALSE
INIT MCInit
NEXT MCNext
VIEW View
CHECK_DEADLOCK FALSE
INVARIANT TypeOK
INVARIANT C01
INVARIANT C02
INVARIANT C03
INVARIANT C04
INVARIANT C06
INVARIANT C08
INVARIANT C14
