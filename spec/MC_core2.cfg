CONSTANTS
  NObj = 2
  Ops <- OpsCore
  Caps <- Caps2
  Variant <- VPinned
  DtorMenu <- MenuPlain
  EmitCover = FALSE
INIT MCInit
NEXT MCNext
VIEW View
CHECK_DEADLOCK FALSE
INVARIANT TypeOK
INVARIANT C01
INVARIANT C02
INVARIANT C03
INVARIANT C06
INVARIANT C08
