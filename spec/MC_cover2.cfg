CONSTANTS
  NObj = 2
  Ops <- OpsCore
  Caps <- Caps2
  Variant <- VFixed
  DtorMenu <- MenuPlain
  EmitCover = TRUE
INIT MCInit
NEXT MCNext
VIEW View
CHECK_DEADLOCK FALSE
