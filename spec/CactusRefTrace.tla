--------------------------- MODULE CactusRefTrace ---------------------------
(***************************************************************************)
(* Trace specification: binds CactusRef.tla to executions recorded from    *)
(* the real library by /verif/harness (ndjson, one line per call / return  *)
(* / destructor run / stored-handle drop, each with the projected state of *)
(* every allocation).                                                      *)
(*                                                                         *)
(* Two next-state relations over the same variables:                       *)
(*                                                                         *)
(*  MonNext  -- the JUDGE.  The user ledger advances by the user-level     *)
(*     meaning of each logged call (LedCall/LedRet of CactusRef), the heap *)
(*     and observation variables are ASSIGNED from the log, and the very   *)
(*     property definitions C01.. of CactusRef are evaluated on every      *)
(*     resulting state.  It knows nothing about how the library computes.  *)
(*                                                                         *)
(*  ConfNext -- the FAITHFULNESS test.  Every logged line must be matched  *)
(*     by the corresponding action of CactusRef (micro-steps that are not  *)
(*     logged are silent) and the logged projection must equal the         *)
(*     specification's state.  Rejection = the code is not a behaviour of  *)
(*     the model (model drift or defect), decided together with Monitor.   *)
(***************************************************************************)
EXTENDS CactusRef, Json, IOUtils

CONSTANTS Props          \* names of the properties the Monitor evaluates

Rec == ndJsonDeserialize(IOEnv.TRACE)

SR == INSTANCE StdRc

VARIABLES mstd,          \* Monitor: the reference model of std::rc in lock step (C07), as a pair
                         \* <<abstract std state, ledger at the start of the top-level call>>
          l,             \* index of the next trace line
          sn,            \* number of the script being replayed
          viol           \* Monitor: set of [script, prop, line] (first failure per script/prop)
tvars == <<vars, l, sn, viol, mstd>>

-----------------------------------------------------------------------------
(* Decoding a logged observation *)

NoObj == [id |-> 0, mem |-> "none", strong |-> 0, weak |-> 0, vinit |-> FALSE, linit |-> FALSE,
          tbl |-> FALSE, nd |-> 0, nf |-> 0, links |-> <<>>]

ObjRec(obs, i) ==
  LET S == {j \in 1..Len(obs.objs) : obs.objs[j].id = i}
  IN IF S = {} THEN NoObj ELSE obs.objs[CHOOSE j \in S : TRUE]

LinksOf(r) ==
  [k \in Key |->
     LET S == {j \in 1..Len(r.links) : r.links[j][1] = k[1] /\ r.links[j][2] = k[2]}
     IN IF S = {} THEN 0 ELSE r.links[CHOOSE j \in S : TRUE][3]]

HeapOf(obs) ==
  [mem    |-> [i \in Obj |-> ObjRec(obs, i).mem],
   strong |-> [i \in Obj |-> ObjRec(obs, i).strong],
   weak   |-> [i \in Obj |-> ObjRec(obs, i).weak],
   vinit  |-> [i \in Obj |-> ObjRec(obs, i).vinit],
   linit  |-> [i \in Obj |-> ObjRec(obs, i).linit],
   links  |-> [i \in Obj |-> IF ObjRec(obs, i).linit THEN LinksOf(ObjRec(obs, i)) ELSE NoLinks],
   tbl    |-> [i \in Obj |-> ObjRec(obs, i).tbl]]

UbOf(obs) == {<<obs.ub[j][1], obs.ub[j][2]>> : j \in 1..Len(obs.ub)}

\* library heap blocks that should exist: one per allocated RcBox, one per table with storage
LibBlocks(h) == Cardinality({i \in Obj : h.mem[i] = "alloc"}) + Cardinality({i \in Obj : h.tbl[i]})

ObsInto(x, obs) ==
  [x EXCEPT !.nd = [i \in Obj |-> ObjRec(obs, i).nd],
            !.nf = [i \in Obj |-> ObjRec(obs, i).nf],
            !.ub = UbOf(obs),
            !.xblocks = obs.blocks - LibBlocks(HeapOf(obs)),
            !.badrel = obs.badrel]

LibFrame  == <<Frame("lib", 0)>>
UserFrame(o) == <<[Frame("value", o) EXCEPT !.ph = "script"]>>

-----------------------------------------------------------------------------
(* Monitor *)

\* the process died (child mode): legitimate only as the abort of a clone of a dead handle;
\* or the library itself panicked
NoCrash == "CRASH" \notin ob.flags
Holds(p) ==
  NoCrash /\
  CASE p = "C01" -> C01
    [] p = "C02" -> C02
    [] p = "C03" -> C03
    [] p = "C04" -> C04
    [] p = "C05" -> C05 /\ C02         \* "keeps the bare allocation valid": no access to / second release of it
    [] p = "C06" -> C06
    [] p = "C08" -> C08
    [] p = "C14" -> C14
    [] p = "C16" -> C16
    [] p = "C15" -> C15
    [] p = "C09" -> C09
    [] p = "C07" -> C07flag
    [] p = "C12" -> C12 /\ C01 /\ C03 /\ C05
    [] p = "C10" -> C01 /\ C02 /\ C03 /\ C04 /\ C05 /\ C06
    [] p = "C11" -> C01 /\ C02 /\ C05 /\ C06 /\ C08 /\ C11x
    [] p = "C13" -> C13
    [] p = "C13x" -> C13x
    [] OTHER -> TRUE

\* what the public API reported through every held handle at the end of a top-level call
SeenFlags(seen, h2, g2, x2) ==
  LET bad(e) ==
        LET o == e[1] IN
        IF e[2] = "S"
        THEN ~(e[3] = HandlesIn(g2, o) /\ e[4] = WeakHandlesIn(g2, o) /\ e[5] /\ e[6])
        ELSE IF h2.vinit[o] /\ x2.nd[o] = 0 /\ ~g2.gone[o]
             THEN ~(e[3] = HandlesIn(g2, o) /\ e[4] = WeakHandlesIn(g2, o) /\ e[6])
             ELSE FALSE
      badW(e) == e[2] = "W" /\ ~(h2.vinit[e[1]] /\ x2.nd[e[1]] = 0 /\ ~g2.gone[e[1]])
                 /\ ~(e[3] = 0 /\ e[4] = 0)
      \* a Weak handle names its allocation for as long as it exists (as_ptr identity), dead or not
      badP(e) == e[2] = "W" /\ ~e[6]
  IN (IF \E j \in 1..Len(seen) : bad(seen[j]) THEN {"C06"} ELSE {})
     \cup (IF \E j \in 1..Len(seen) : badW(seen[j]) \/ badP(seen[j]) THEN {"C05"} ELSE {})

DropOps  == {"DropRoot", "DropStored", "DecStrong", "MakeMut", "MakeMutS", "MakeMutP"}      \* calls that drop a strong handle
CloneOps == {"CloneRoot", "CloneStored", "IncStrongStored"}

MonStep ==
  /\ l <= Len(Rec)
  /\ LET ln == Rec[l] IN
     /\ l' = l + 1
     /\ CASE ln.k = "reset" ->
             \* the same script may be replayed under several heap layouts (consecutive resets
             \* with the same script number): the outcomes of layout 0 are kept as the baseline
             /\ heap' = Heap0 /\ led' = Led0 /\ ctl' = Ctl0 /\ sn' = ln.script /\ mstd' = [st |-> SR!Std0, g |-> Led0]
             /\ ob' = [Ob0 EXCEPT !.layout = ln.layout,
                                  !.base = IF ln.layout = 0 THEN <<>>
                                           ELSE IF ob.layout = 0 THEN ob.sig ELSE ob.base]
          [] ln.k = "call" ->
             LET g1 == LC(ln.op, ln.a, ln.b)
                 x0 == IF ln.depth = 0 THEN NewCall(ln.op, ln.a, ln.b)
                       ELSE [ob EXCEPT !.call = [op |-> ln.op, a |-> ln.a, b |-> ln.b]]
                 tg == IF ln.op = "DropStored" THEN ln.b ELSE ln.a
                 x1 == IF ln.op \in DropOps
                       THEN (IF ln.depth = 0 THEN DropObs(x0, g1, tg)
                             ELSE [x0 EXCEPT !.must = @ \cup Demand(g1, x0, tg), !.dcset = @ \cup DCSet(g1, x0, tg)])
                       ELSE x0
             IN /\ heap' = HeapOf(ln.obs)
                /\ led' = g1
                /\ ob' = ObsInto(x1, ln.obs)
                /\ ctl' = [stack |-> LibFrame, mode |-> "run"]
                /\ sn' = sn /\ mstd' = IF ln.depth = 0 THEN [mstd EXCEPT !.g = g1] ELSE mstd
          [] ln.k = "ret" ->
             LET h2 == HeapOf(ln.obs)
                 x1 == ObsInto(ob, ln.obs)
                 g2 == Mark(LedRet(led, ln.op, ln.a, ln.b, ln.d, ln.ret), x1, Cause(ln.op))
                 up == IF ln.op \in {"Upgrade", "UpgradeStored"}
                       THEN UpgradeFlag(IF ln.op = "Upgrade" THEN ln.a ELSE ln.b, ln.ret = "some")
                       ELSE {}
                 c14 == IF ln.depth = 0 /\
                           \/ ln.op \in {"DropRoot", "DropStored", "DecStrong"} /\ ob.empty0
                              /\ (ln.cnt.ntrace1 > 0 \/ ln.cnt.nalloc1 > 0)
                           \/ ln.op \in {"MakeMut", "MakeMutS", "MakeMutP"} /\ ob.empty0 /\ ln.cnt.ntrace1 > 0
                           \/ ln.op \in CloneOps /\ (ln.cnt.ntrace > 0 \/ ln.cnt.nalloc > 0)
                        THEN {"C14"} ELSE {}
                 sf == IF ln.depth = 0 THEN SeenFlags(ln.seen, h2, g2, x1) ELSE {}
                 c16 == IF ln.op \in {"CloneRoot", "IncStrong"} THEN CloneFlag(ln.a, ln.ret)
                        ELSE IF ln.op \in {"CloneStored", "IncStrongStored"} THEN CloneFlag(ln.b, ln.ret) ELSE {}
                 \* C09: outcome of this call = result, destroyed SET, everything observable after it
                 sg  == [ret |-> ln.ret, dset |-> {ob.dlog[i] : i \in 1..Len(ob.dlog)}, heap |-> h2,
                         nd |-> x1.nd, nf |-> x1.nf, seen |-> ln.seen]
                 sig2 == IF ln.depth = 0 THEN Append(ob.sig, sg) ELSE ob.sig
                 c09 == IF ln.depth = 0 /\ ob.layout > 0 /\
                           (Len(sig2) > Len(ob.base) \/ ob.base[Len(sig2)] # sg)
                        THEN {"C09"} ELSE {}
                 \* C07: the real std::rc, the real cactusref and the reference model agree
                 m2  == IF ln.depth = 0 /\ ln.stdon THEN SR!StdApply(mstd.st, mstd.g, ln.op, ln.a, ln.b) ELSE mstd.st
                 v2  == SR!StdView(m2)
                 c07 == IF ln.depth = 0 /\ ln.stdon /\ ~g2.adopted /\
                           ~( /\ ln.std.ret = ln.ret
                              /\ ln.std.dlog = ob.dlog
                              /\ ln.std.clones = ln.cnt.nclones
                              /\ Len(ln.std.seen) = Len(ln.seen)
                              /\ \A j \in 1..Len(ln.std.seen) :
                                    LET e == ln.std.seen[j]  c == ln.seen[j] IN
                                    /\ e[1] = c[1] /\ e[2] = c[2] /\ e[3] = c[3] /\ e[4] = c[4]
                                    /\ e[3] = v2.sc[e[1]]
                                    /\ e[4] = IF e[2] = "S" THEN m2.weak[e[1]] - 1 ELSE v2.wc[e[1]]
                              /\ v2.ret = ln.std.ret /\ v2.dlog = ln.std.dlog )
                        THEN {"C07"} ELSE {}
                 c15 == IF ln.cnt.nvisit > ln.cnt.ntrace * Cardinality(Made(g2)) THEN {"C15"} ELSE {}
                 \* a panic raised by the library itself (a failed borrow, an assertion): like a crash
                 lp  == IF ln.ret = "libpanic" THEN {"CRASH"} ELSE {}
                 x2 == [x1 EXCEPT !.ret = ln.ret, !.flags = @ \cup up \cup c14 \cup sf \cup c15 \cup c16 \cup c09 \cup c07 \cup lp, !.sig = sig2,
                                  !.ntrace = ln.cnt.ntrace, !.npop = ln.cnt.npop,
                                  !.nvisit = ln.cnt.nvisit, !.nmember = ln.cnt.nmember]
             IN /\ heap' = h2
                /\ led' = IF ln.panic THEN [g2 EXCEPT !.panicked = Obj] ELSE g2
                /\ ob' = IF ln.depth = 0 THEN Finalize(g2, x2) ELSE x2
                /\ ctl' = [stack |-> IF ln.depth = 0 THEN <<>> ELSE UserFrame(0), mode |-> "run"]
                /\ sn' = sn /\ mstd' = [mstd EXCEPT !.st = m2]
          [] ln.k = "dtor" ->
             /\ heap' = HeapOf(ln.obs)
             /\ led' = EraseRec(led, ln.a)
             /\ ob' = LET x1 == ObsInto(ob, ln.obs)
                      IN [x1 EXCEPT !.dlog = Append(@, ln.a),
                                    \* counts reported through the held handles from inside the destructor
                                    !.flags = @ \cup SeenFlags(ln.seen, HeapOf(ln.obs), led', x1)]
             /\ ctl' = [stack |-> UserFrame(ln.a), mode |-> "run"]
             /\ sn' = sn /\ mstd' = mstd
          [] ln.k = "died" ->
             \* the child process was killed by a signal right after the last logged line
             LET c == ob.call
                 t == IF c.op \in {"CloneStored", "IncStrongStored"} THEN c.b ELSE c.a
                 expected == /\ Stack # <<>> /\ Top.pc = "lib"
                             /\ c.op \in {"CloneRoot", "CloneStored", "IncStrong", "IncStrongStored"}
                             /\ t \in Obj /\ heap.mem[t] = "alloc" /\ heap.strong[t] \in {0, UNINIT}
             IN /\ heap' = heap /\ led' = led
                /\ ob' = [ob EXCEPT !.flags = @ \cup (IF expected THEN {} ELSE {"CRASH"}), !.ret = "abort"]
                /\ ctl' = [stack |-> LibFrame, mode |-> "aborted"]
                /\ sn' = sn /\ mstd' = mstd
          [] ln.k = "abort" ->
             /\ heap' = HeapOf(ln.obs) /\ led' = led
             /\ ob' = [ObsInto(ob, ln.obs) EXCEPT !.flags = @ \cup {"C11"}]
             /\ ctl' = [stack |-> LibFrame, mode |-> "aborted"]
             /\ sn' = sn /\ mstd' = mstd
          [] ln.k = "hdrop" ->
             /\ heap' = HeapOf(ln.obs)
             /\ led' = IF ln.kind = "S" THEN [led EXCEPT !.valS[ln.a][ln.b] = @ - 1]
                       ELSE [led EXCEPT !.valW[ln.a][ln.b] = @ - 1]
             /\ ob' = IF ln.kind = "S"
                      THEN [ObsInto(ob, ln.obs) EXCEPT !.must = @ \cup Demand(led', ob, ln.b),
                                                        !.dcset = @ \cup DCSet(led', ob, ln.b)]
                      ELSE ObsInto(ob, ln.obs)
             /\ ctl' = [stack |-> LibFrame, mode |-> "run"]
             /\ sn' = sn /\ mstd' = mstd
     /\ viol' = viol \cup
          {[script |-> sn', prop |-> p, line |-> l] :
             p \in {p \in Props : ~Holds(p)' /\ ~\E v \in viol : v.script = sn' /\ v.prop = p}}
     /\ (l' = Len(Rec) + 1) => PrintT(<<"VIOL", ToJson(viol')>>)

MonInit == Init /\ l = 1 /\ sn = -1 /\ viol = {} /\ mstd = [st |-> SR!Std0, g |-> Led0]
MonNext == MonStep
\* all lines consumed: checked as a POSTCONDITION
MonAccepted ==
  \/ TLCGet("stats").diameter - 1 = Len(Rec)
  \/ PrintT(<<"MONITOR-STUCK", TLCGet("stats").diameter, Len(Rec)>>) /\ FALSE

-----------------------------------------------------------------------------
(* Conform *)

\* the allocation a make_mut in progress has created is registered by the harness only when
\* the call returns: until then it is missing from the logged observations
Unregistered(x, i, r) == /\ r.mem = "none" /\ x.call.op \in {"MakeMut", "MakeMutS", "MakeMutP"} /\ x.call.b = i
ObjMatches(h, x, i, r) ==
  /\ h.mem[i] = r.mem
  /\ r.mem = "alloc" =>
       /\ h.strong[i] = r.strong /\ h.weak[i] = r.weak
       /\ h.vinit[i] = r.vinit /\ h.linit[i] = r.linit
       /\ r.linit => h.tbl[i] = r.tbl /\ h.links[i] = LinksOf(r)
  /\ x.nd[i] = r.nd /\ x.nf[i] = r.nf
HeapMatches(h, x, obs) ==
  /\ \A i \in Obj :
       LET r == ObjRec(obs, i) IN Unregistered(x, i, r) \/ ObjMatches(h, x, i, r)
  /\ (x.ub = {}) = (Len(obs.ub) = 0)

\* micro-steps that leave no line in the trace
\* The order in which a collected group is destroyed is the iteration order of a hash map: the
\* model allows every order, the trace says which one it was (the `dtor` lines that follow).
\* Reading it from the log keeps the search linear (10 members would be 10! branches).
LookAhead == SubSeq(Rec, l, IF Len(Rec) < l + 600 THEN Len(Rec) ELSE l + 600)
RECURSIVE OrderFrom(_, _, _)
OrderFrom(lines, S, acc) ==
  IF lines = <<>> \/ S = {} THEN acc
  ELSE LET h == Head(lines) IN
       IF h.k = "reset" THEN acc
       ELSE IF h.k = "dtor" /\ h.a \in S THEN OrderFrom(Tail(lines), S \ {h.a}, Append(acc, h.a))
       ELSE OrderFrom(Tail(lines), S, acc)
RECURSIVE Rest(_)
Rest(S) == IF S = {} THEN <<>> ELSE LET x == CHOOSE x \in S : TRUE IN <<x>> \o Rest(S \ {x})
LoggedOrder(S) == LET o == OrderFrom(LookAhead, S, <<>>)
                  IN o \o Rest(S \ {o[i] : i \in 1..Len(o)})
ConfMark == /\ Stack # <<>> /\ Top.pc = "mark"
            /\ StepMarkO(IF MarkFreed # {} THEN <<>> ELSE LoggedOrder(MarkSet))

Silent ==
  \/ StepDrop \/ StepOrphan \/ StepBust \/ ConfMark \/ StepCycleDestroy \/ StepRelease
  \/ StepUninit \/ StepPostValue \/ StepUnwindSkip
  \/ /\ StepValuePanic /\ ctl'.mode = "run"                   \* the scripted panic itself
  \/ /\ StepValueScript /\ ctl'.stack = ScriptBase            \* no script / script skipped
  \/ /\ StepValueFields /\ Len(ctl'.stack) < Len(Stack)       \* nothing left to drop: return

ConfStep ==
  \/ /\ l <= Len(Rec) /\ Rec[l].k = "reset"
     /\ heap' = Heap0 /\ led' = Led0 /\ ob' = Ob0 /\ ctl' = Ctl0
     /\ l' = l + 1 /\ sn' = Rec[l].script
  \/ /\ Silent /\ l' = l /\ sn' = sn
  \/ /\ l <= Len(Rec) /\ Rec[l].k # "reset" /\ l' = l + 1 /\ sn' = sn
     /\ LET ln == Rec[l] IN
        \/ \* the library performed an illegal access and so did the model: the rest of the
           \* script is undefined on both sides
           /\ ob.ub # {} /\ UNCHANGED vars
        \/ /\ ob.ub = {}
           /\ CASE ln.k = "call" /\ ln.depth = 0 ->
                   /\ AtTop
                   /\ HeapMatches(heap, ob, ln.obs)
                   /\ CallOp(ln.op, ln.a, ln.b, ln.d, TRUE, <<>>)
                   /\ ln.op \in {"MakeMut", "MakeMutS", "MakeMutP"} /\ ob'.ub = {} /\ ctl'.mode = "run" => ob'.call.b = ln.b
                [] ln.k = "call" /\ ln.depth > 0 ->
                   /\ AtDtorPoint
                   /\ LET c == ScriptCall(led.dtor[Top.o]) IN c.op = ln.op /\ c.a = ln.a /\ c.b = ln.b
                   /\ ScriptOp(led.dtor[Top.o])
                [] ln.k = "ret" /\ ln.ret = "abort" ->
                   /\ UNCHANGED vars
                   /\ ctl.mode = "aborted" /\ ob.ret = "abort"
                [] ln.k = "abort" ->
                   /\ StepValuePanic /\ ctl'.mode = "aborted"
                [] ln.k = "died" ->
                   /\ UNCHANGED vars /\ ctl.mode = "aborted"
                [] ln.k = "ret" /\ ln.ret # "abort" ->
                   /\ UNCHANGED vars
                   /\ IF ln.depth = 0 THEN Quiescent
                      ELSE Stack # <<>> /\ Top.pc = "value" /\ Top.ph = "fields"
                   /\ \/ Len(ln.obs.ub) > 0
                      \/ /\ HeapMatches(heap, ob, ln.obs)
                         /\ ob.ret = ln.ret
                         \* the cost counters of the call (hooks in cycle.rs) equal the model's
                         /\ ln.depth = 0 => /\ ob.ntrace = ln.cnt.ntrace /\ ob.npop = ln.cnt.npop
                                            /\ ob.nvisit = ln.cnt.nvisit /\ ob.nmember = ln.cnt.nmember
                [] ln.k = "dtor" ->
                   /\ StepValueEnter /\ Top.o = ln.a
                   /\ HeapMatches(heap', ob', ln.obs)
                [] ln.k = "hdrop" ->
                   /\ StepValueFields /\ Top.o = ln.a
                   /\ Len(ctl'.stack) >= Len(Stack)
                   /\ IF ln.kind = "S" THEN led'.valS[ln.a][ln.b] = led.valS[ln.a][ln.b] - 1
                                       ELSE led'.valW[ln.a][ln.b] = led.valW[ln.a][ln.b] - 1
                   /\ HeapMatches(heap, ob, ln.obs)

ConfInit == Init /\ l = 1 /\ sn = -1 /\ viol = {} /\ mstd = [st |-> SR!Std0, g |-> Led0] /\ TLCSet(1, 1) /\ TLCSet(2, "init")
ConfNext == ConfStep /\ UNCHANGED <<viol, mstd>>
\* remember the furthest line reached (needs -workers 1)
ConfProgress ==
  IF l >= TLCGet(1)
  THEN TLCSet(1, l) /\ TLCSet(2, [heap |-> heap, nd |-> ob.nd, nf |-> ob.nf, ub |-> ob.ub, ret |-> ob.ret,
                                   stack |-> [i \in 1..Len(Stack) |-> <<Stack[i].pc, Stack[i].o, Stack[i].ph>>],
                                   mode |-> ctl.mode])
  ELSE TRUE
ConfAccepted ==
  \/ TLCGet(1) = Len(Rec) + 1
  \/ /\ PrintT(<<"UNMATCHED", TLCGet(1), ToJson(Rec[TLCGet(1)])>>)
     /\ PrintT(<<"SPEC-STATE", TLCGet(2)>>)
     /\ FALSE
=============================================================================
