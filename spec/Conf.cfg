CONSTANTS
  NObj = 3
  Ops <- OpsAll
  Caps <- CapsBig
  Variant <- VFixed
  DtorMenu <- MenuAny
  Props <- PropsAll
INIT ConfInit
NEXT ConfNext
CONSTRAINT ConfProgress
POSTCONDITION ConfAccepted
CHECK_DEADLOCK FALSE
