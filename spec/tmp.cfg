CONSTANTS
  NObj = 2
  Ops <- OpsStdQ
  Caps <- CapsQ
  Variant <- VFixed
  DtorMenu <- MenuPlain
  EmitCover = 0
  SimLen = 0
  EmitOut = 0
  TrackStd = 1
INIT MCInit
NEXT MCNext
VIEW View
CHECK_DEADLOCK FALSE
INVARIANT MC_C07
