------------------------------- MODULE CactusRef -------------------------------
(***************************************************************************)
(* Explicit-state specification of artichoke/cactusref (crate `cactusref`, *)
(* a cycle-aware `Rc`).                                                     *)
(*                                                                          *)
(* The module has three layers of state:                                    *)
(*                                                                          *)
(*   heap  what the LIBRARY stores per allocation (RcBox): allocation       *)
(*         status, strong/weak counters (usize::MAX written -1), whether    *)
(*         the two MaybeUninit fields are inhabited, the link table.        *)
(*   led   what the PROGRAM did (the user ledger): which handles exist and  *)
(*         where they are held, which adoptions the calls imply.  It is     *)
(*         updated by the user-level meaning of each call only and never    *)
(*         reads the heap: every property's oracle side is computed here.   *)
(*   ob    observations / history (destructor runs, releases, memory        *)
(*         events the code must never perform, result of the last call,     *)
(*         cost counters, sticky flags of violated action properties).      *)
(*   ctl   control: the library's call stack (Rc::drop is modelled as       *)
(*         micro-steps, one action per critical section of src/drop.rs) and *)
(*         the execution mode.                                              *)
(*                                                                          *)
(* The spec models the code AS IT IS (including its defects); switches in   *)
(* the constant `Variant` select between the behaviour of the pinned tree   *)
(* and of the repaired tree so that both stay reproducible.                 *)
(***************************************************************************)
EXTENDS Integers, Sequences, FiniteSets, TLC

CONSTANTS
  NObj,      \* number of object identities (ids are never reused)
  Ops,       \* set of names of the public calls enabled in this configuration
  Caps,      \* record of bounds: [strong, stored, rec, weak, storedW] and of scope switches:
             \*   over  = TRUE allows adopt to record more than the owner holds,
             \*   elide = TRUE allows removing a recorded handle without unadopt
  Variant,   \* record: [bust |-> "out"|"owned", loop |-> "split"|"merged"|"ignored",
             \*          consume |-> "ignore"|"purge"]
  DtorMenu   \* set of destructor scripts New may attach to a value

Obj    == 1..NObj
UNINIT == -1                       \* usize::MAX in `strong`: value+table moved out
Kinds  == {"F", "B", "L"}          \* Forward, Backward, Loopback (src/link.rs)
Key    == Kinds \X Obj

VARIABLES heap, led, ob, ctl
vars == <<heap, led, ob, ctl>>

-----------------------------------------------------------------------------
(* Generic helpers *)

RECURSIVE SumTo(_, _)
SumTo(f, n) == IF n = 0 THEN 0 ELSE f[n] + SumTo(f, n - 1)
SumObj(f)   == SumTo(f, NObj)                      \* f \in [Obj -> Int]

RECURSIVE SumSet(_, _)
SumSet(f, S) == IF S = {} THEN 0
                ELSE LET x == CHOOSE x \in S : TRUE IN f[x] + SumSet(f, S \ {x})

RECURSIVE SeqsOf(_)
SeqsOf(S) == IF S = {} THEN {<<>>}
             ELSE UNION {{<<x>> \o t : t \in SeqsOf(S \ {x})} : x \in S}

Min(a, b) == IF a < b THEN a ELSE b
Max(a, b) == IF a > b THEN a ELSE b
MinOf(S)  == CHOOSE x \in S : \A y \in S : x <= y

Zero1   == [o \in Obj |-> 0]
Zero2   == [a \in Obj |-> Zero1]
False1  == [o \in Obj |-> FALSE]
NoLinks == [k \in Key |-> 0]
NoScript == [op |-> "none", x |-> 0, y |-> 0]

-----------------------------------------------------------------------------
(* Initial state *)

Heap0 == [mem    |-> [o \in Obj |-> "none"],
          strong |-> Zero1,
          weak   |-> Zero1,
          vinit  |-> False1,
          linit  |-> False1,
          links  |-> [o \in Obj |-> NoLinks],
          tbl    |-> False1]
Led0  == [rootS |-> Zero1, rootW |-> Zero1,
          valS  |-> Zero2, valW  |-> Zero2,
          rec   |-> Zero2, recL  |-> Zero1,
          raw   |-> Zero1,             \* strong handles converted to raw pointers (into_raw)
          rawW  |-> Zero1,             \* Weak handles converted to raw pointers (Weak::into_raw)
          made  |-> False1,            \* object was created
          gone  |-> False1,            \* value was moved out to the caller (try_unwrap/make_mut)
          tore  |-> FALSE,             \* a top-level DropRoot has happened (phase switch of the "graph" family)
          fresh |-> 0,                 \* allocation the call in progress creates (make_mut), else 0
          unw   |-> {},                \* objects whose value is detached in the caller's hands
          mvd   |-> Zero1,             \* how often the value was moved out / cloned by a consuming call
          dtor  |-> [o \in Obj |-> NoScript],
          stale |-> FALSE,             \* ever: more adoptions recorded than handles held
          over  |-> FALSE,             \* ... caused by adopt (over-recording)
          elided|-> FALSE,             \* ... caused by removing a recorded handle without unadopt
          adopted |-> FALSE,           \* some adoption was ever recorded
          panicked |-> {}]             \* objects whose teardown was interrupted by a panic
Ob0   == [nd    |-> Zero1,             \* destructor runs per object
          nf    |-> Zero1,             \* releases of the allocation per object
          ub    |-> {},                \* memory events the code must never perform
          dlog  |-> <<>>,              \* destruction order inside the current call
          ret   |-> "-",               \* result of the last call (top-level or scripted)
          tret  |-> "-",               \* result of the top-level call in progress (restored at return)
          call  |-> [op |-> "-", a |-> 0, b |-> 0],
          must  |-> {},                \* C03: objects this call is obliged to destroy
          flags |-> {},                \* sticky: violated action properties
          dcset |-> {},
          layout |-> 0, sig |-> <<>>, base |-> <<>>,   \* C09 (trace Monitor): per-call outcomes across heap layouts                \* sticky: objects whose destruction is the known finding D-C
          xblocks |-> 0,               \* library heap blocks that are neither an RcBox nor a link table
          badrel |-> 0,                \* blocks released with a layout other than the one they were allocated with
          ntrace |-> 0, npop |-> 0, nvisit |-> 0, nalloc |-> 0, nmember |-> 0, nlinks |-> 0,
          empty0 |-> FALSE]            \* C14: table of the call's object was empty at entry
Ctl0  == [stack |-> <<>>, mode |-> "run"]

Init == heap = Heap0 /\ led = Led0 /\ ob = Ob0 /\ ctl = Ctl0

-----------------------------------------------------------------------------
(* Views of the state *)

Stack     == ctl.stack
Top       == Stack[1]
Quiescent == Stack = <<>>
Running   == ctl.mode = "run"

Frame(pc, o) == [pc |-> pc, o |-> o, s |-> <<>>, cyc |-> <<>>, tab |-> FALSE, ph |-> "-", uw |-> FALSE]

Allocd(h, o) == h.mem[o] = "alloc"
IntactIn(h, o) == h.mem[o] = "alloc" /\ h.vinit[o]
Intact(o)    == IntactIn(heap, o)
Entries(h, o) == {k \in Key : h.links[o][k] > 0}

\* the user is executing code: between calls, or inside a value's destructor
AtDtorPoint == Stack # <<>> /\ Top.pc = "value" /\ Top.ph = "script"
UserPoint   == Quiescent \/ AtDtorPoint

(* ---- ledger-only notions (never read `heap`) ---- *)

Made(g)        == {o \in Obj : g.made[o]}
\* objects whose value sits in its allocation and has not been destroyed.  (A value taken out
\* by try_unwrap is `gone`: it lives on, detached, in the caller's hands until it is dropped.)
LiveIn(g, x)   == {o \in Made(g) : x.nd[o] = 0 /\ ~g.gone[o]}
Live           == LiveIn(led, ob)
\* values that still hold their stored handles (in place or detached)
HoldingIn(g, x) == {o \in Made(g) : x.nd[o] = 0}
Detached(g, x)  == {o \in Made(g) : x.nd[o] = 0 /\ g.gone[o]}

\* all existing strong handles to o (wherever held, including by values under destruction)
HandlesIn(g, o) == g.rootS[o] + g.raw[o] + SumObj([a \in Obj |-> g.valS[a][o]])
WeakHandlesIn(g, o) == g.rootW[o] + g.rawW[o] + SumObj([a \in Obj |-> g.valW[a][o]])
Handles(o)     == HandlesIn(led, o)
WeakHandles(o) == WeakHandlesIn(led, o)

\* strong handles to m that are not owned by the values of objects in D
\* (owners whose value is already destroyed no longer hold anything)
HeldOutside(g, x, D, m) ==
  g.rootS[m] + g.raw[m]
  + SumSet([a \in Obj |-> g.valS[a][m]], LiveIn(g, x) \ D)

\* adoptions of m by n that count as owned references.  A self-adoption through the very
\* same handle object (Loopback, `recL`) is documented to have no effect ("Self-adoptions
\* have no effect", src/adopt.rs) and the crate's own tests record such adoptions without
\* storing any handle, so it is bookkeeping only: it is neither part of C01's precondition
\* nor of C03's premise.
RecCount(g, n, m) == g.rec[n][m]

\* objects reachable from the program's handles through stored handles
ReachIn(g, x) ==
  LET L     == LiveIn(g, x)              \* objects whose value still holds its handles
      roots == {o \in Obj : g.rootS[o] > 0 \/ g.raw[o] > 0}
               \cup {m \in Obj : \E a \in Detached(g, x) : g.valS[a][m] > 0}
      edge  == [a \in Obj |-> IF a \in L THEN {m \in Obj : g.valS[a][m] > 0} ELSE {}]
      F[k \in 0..NObj] == IF k = 0 THEN roots
                           \* (one reference to F[k - 1] only: TLC re-evaluates a LET body per reference)
                           ELSE UNION {{a} \cup edge[a] : a \in F[k - 1]}
  IN F[NObj]
Reach == ReachIn(led, ob)

StaleIn(g, x) == \E a \in LiveIn(g, x), b \in Obj : RecCount(g, a, b) > g.valS[a][b]

\* handles the harness can name in a call: root handles and handles stored in intact values
AccS(o) == led.rootS[o] + SumObj([a \in Obj |-> IF Intact(a) /\ ob.nd[a] = 0 THEN led.valS[a][o] ELSE 0])

(* ---- C03 oracle: what the drop of ONE handle to X obliges the library to destroy ---- *)
(* Evaluated at every handle drop (public, scripted, or performed by the destruction of  *)
(* a value that held the handle), on the ledger as it is right after that handle ceased   *)
(* to exist.  Handles still held by values whose destruction is in progress count: they   *)
(* exist until they are dropped in their turn.  This is the statement of C03 read         *)
(* literally; in particular a cycle whose acyclic tail is dropped last is NOT demanded    *)
(* (the set reachable from the tail through recorded adoptions does not own the tail).    *)

RECURSIVE RecClosure(_, _, _)
RecClosure(g, x, S) ==
  LET nxt == {m \in LiveIn(g, x) : \E n \in S : RecCount(g, n, m) > 0}
  IN IF nxt \subseteq S THEN S ELSE RecClosure(g, x, S \cup nxt)

Demand(g, x, X) ==
  IF g.stale \/ X \notin LiveIn(g, x) THEN {}
  ELSE IF HandlesIn(g, X) = 0 THEN {X}
  ELSE LET S == RecClosure(g, x, {X})
       IN IF \A m \in S : HandlesIn(g, m) = SumSet([n \in Obj |-> RecCount(g, n, m)], S)
          THEN S ELSE {}

MustDie(g, x, x0) == Demand(g, x, x0)

-----------------------------------------------------------------------------
(* State-update plumbing *)

\* mark the ledger with the (sticky) precondition flags; cause \in {"over","elide","none"}
Mark(g, x, cause) ==
  IF StaleIn(g, x)
  THEN [g EXCEPT !.stale = TRUE,
                 !.over  = @ \/ (cause = "over"),
                 !.elided = @ \/ (cause = "elide")]
  ELSE g

Commit(h, g, x, c) == heap' = h /\ led' = g /\ ob' = x /\ ctl' = c

\* a call (or the whole stack) returns to the user: close the per-call obligations
Finalize(g, x) ==
  LET dead == {o \in Obj : x.nd[o] > 0}
  IN [x EXCEPT !.flags = @ \cup (IF x.must \subseteq dead THEN {} ELSE {"C03"}),
               !.must  = {},
               !.ret   = IF x.ret = "panic" \/ x.tret = "-" THEN x.ret ELSE x.tret]
RetTo(g, x, s) ==
  IF s = <<>>
  THEN Finalize(g, IF Stack # <<>> /\ Stack[Len(Stack)].uw THEN [x EXCEPT !.ret = "panic"] ELSE x)
  ELSE x

Crash(e) ==
  Commit(heap, led, [ob EXCEPT !.ub = @ \cup {e}], [ctl EXCEPT !.mode = "crashed"])

NewCall(op, a, b) ==        \* observation reset at a top-level public call
  [ob EXCEPT !.call = [op |-> op, a |-> a, b |-> b], !.ret = "-", !.tret = "-", !.dlog = <<>>,
             !.ntrace = 0, !.npop = 0, !.nvisit = 0, !.nalloc = 0, !.nmember = 0,
             !.nlinks = 0, !.empty0 = FALSE]
\* observation record used by an op: fresh at top level, unchanged inside a destructor
ObFor(top, op, a, b) == IF top THEN NewCall(op, a, b) ELSE ob

Remove(tab, k, n) == [tab EXCEPT ![k] = IF @ > n THEN @ - n ELSE 0]      \* Links::remove

-----------------------------------------------------------------------------
(* The user ledger: what each call means for the PROGRAM.  `LedCall` is the   *)
(* part that takes effect before the library is entered (a handle leaves the   *)
(* program's hands), `LedRet` the part that takes effect when the call returns *)
(* (and may depend on the result).  The specification's actions and the trace  *)
(* Monitor both use exactly these two operators.                               *)

\* the ledger forgets every adoption that involves a destroyed object
EraseRec(g, o) ==
  [g EXCEPT !.rec  = [a \in Obj |-> [b \in Obj |-> IF a = o \/ b = o THEN 0 ELSE @[a][b]]],
            !.recL = [@ EXCEPT ![o] = 0]]

Cause(op) == IF op \in {"Take", "DropStored", "TakeUnadopt"} THEN "elide"
             ELSE IF op \in {"Adopt", "AdoptSame", "AdoptStore"} THEN "over" ELSE "none"

LedCall(g, op, a, b) ==
  CASE op = "DropRoot"   -> [g EXCEPT !.rootS[a] = @ - 1, !.tore = TRUE]
    [] op = "DropStored" -> [g EXCEPT !.valS[a][b] = @ - 1]
    [] op = "Store"      -> [g EXCEPT !.rootS[b] = @ - 1]
    [] op = "Take"       -> [g EXCEPT !.valS[a][b] = @ - 1]
    [] op = "WeakDrop"   -> [g EXCEPT !.rootW[a] = @ - 1]
    [] op = "StoreWeak"  -> [g EXCEPT !.rootW[b] = @ - 1]
    [] op = "TakeWeak"   -> [g EXCEPT !.valW[a][b] = @ - 1]
    [] op = "IntoRaw"    -> [g EXCEPT !.rootS[a] = @ - 1, !.raw[a] = @ + 1]
    [] op = "WeakIntoRaw" -> [g EXCEPT !.rootW[a] = @ - 1, !.rawW[a] = @ + 1]
    [] op = "DecStrong"  -> [g EXCEPT !.raw[a] = @ - 1]
    \* make_mut through a root handle to a; b = id of the fresh allocation (0: none needed).
    \* Other strong handles exist: the value is CLONED into b and the old handle is dropped.
    \* Only Weak handles besides ours: the value is MOVED into b and a is given up.
    \* MakeMutP: the payload's Clone panics -- on the cloning branch nothing changes (b = 0)
    [] op \in {"MakeMut", "MakeMutS", "MakeMutP"} ->
         IF b = 0 THEN g
         ELSE IF HandlesIn(g, a) > 1
         THEN \* MakeMutS: the payload's Clone creates an EMPTY value (no stored handle is re-shared)
              [g EXCEPT !.rootS[a] = @ - 1, !.rootS[b] = 1, !.made[b] = TRUE, !.fresh = b,
                        !.valS[b] = IF op # "MakeMutS" THEN g.valS[a] ELSE Zero1,
                        !.valW[b] = IF op # "MakeMutS" THEN g.valW[a] ELSE Zero1,
                        !.dtor[b] = NoScript,      \* (a destructor script belongs to the original, not to its clones)
                        !.mvd[a] = @ + 1]
         ELSE [EraseRec(g, a) EXCEPT !.rootS[a] = @ - 1, !.rootS[b] = 1, !.made[b] = TRUE, !.fresh = b,
                        !.valS[b] = g.valS[a], !.valW[b] = g.valW[a], !.dtor[b] = g.dtor[a],
                        !.valS[a] = Zero1, !.valW[a] = Zero1, !.dtor[a] = NoScript,
                        !.gone[a] = TRUE, !.mvd[a] = @ + 1]
    [] OTHER -> g

LedRet(g, op, a, b, d, ret) ==
  CASE op = "New"         -> [g EXCEPT !.rootS[a] = 1, !.made[a] = TRUE, !.dtor[a] = d]
    [] op = "CloneRoot"   -> IF ret = "ok" THEN [g EXCEPT !.rootS[a] = @ + 1] ELSE g
    [] op = "CloneStored" -> IF ret = "ok" THEN [g EXCEPT !.rootS[b] = @ + 1] ELSE g
    [] op = "Store"       -> [g EXCEPT !.valS[a][b] = @ + 1]
    [] op = "Take"        -> [g EXCEPT !.rootS[b] = @ + 1]
    [] op = "Adopt"       -> [g EXCEPT !.rec[a][b] = @ + 1, !.adopted = TRUE]
    [] op = "Unadopt"     -> [g EXCEPT !.rec[a][b] = Max(0, @ - 1)]
    [] op = "AdoptSame"   -> [g EXCEPT !.recL[a] = @ + 1, !.adopted = TRUE]
    [] op = "UnadoptSame" -> [g EXCEPT !.recL[a] = Max(0, @ - 1)]
    [] op = "AdoptStore"  -> [g EXCEPT !.rec[a][b] = @ + 1, !.adopted = TRUE,
                                       !.rootS[b] = @ - 1, !.valS[a][b] = @ + 1]
    [] op = "TakeUnadopt" -> [g EXCEPT !.rec[a][b] = Max(0, @ - 1),
                                       !.rootS[b] = @ + 1, !.valS[a][b] = @ - 1]
    [] op = "Downgrade"   -> [g EXCEPT !.rootW[a] = @ + 1]
    [] op = "DowngradeStored" -> [g EXCEPT !.rootW[b] = @ + 1]
    [] op = "Upgrade"     -> IF ret = "some" THEN [g EXCEPT !.rootS[a] = @ + 1] ELSE g
    [] op = "UpgradeStored" -> IF ret = "some" THEN [g EXCEPT !.rootS[b] = @ + 1] ELSE g
    [] op = "WeakClone"   -> IF ret = "ok" THEN [g EXCEPT !.rootW[a] = @ + 1] ELSE g
    [] op = "StoreWeak"   -> [g EXCEPT !.valW[a][b] = @ + 1]
    [] op = "TakeWeak"    -> [g EXCEPT !.rootW[b] = @ + 1]
    \* try_unwrap: Ok(value) -- the handle is consumed, the value is detached, the allocation
    \* is given up (every adoption record that involves it is void)
    [] op = "TryUnwrap"   -> IF ret = "ok"
                             THEN [EraseRec(g, a) EXCEPT !.rootS[a] = @ - 1, !.gone[a] = TRUE,
                                                         !.unw = @ \cup {a}, !.mvd[a] = @ + 1]
                             ELSE g
    [] op \in {"MakeMut", "MakeMutS", "MakeMutP"} -> [g EXCEPT !.fresh = 0]
    [] op = "FromRaw"     -> [g EXCEPT !.raw[a] = @ - 1, !.rootS[a] = @ + 1]
    [] op = "WeakFromRaw" -> [g EXCEPT !.rawW[a] = @ - 1, !.rootW[a] = @ + 1]
    [] op = "IncStrong"   -> IF ret = "ok" THEN [g EXCEPT !.raw[a] = @ + 1] ELSE g
    [] op = "IncStrongStored" -> IF ret = "ok" THEN [g EXCEPT !.raw[b] = @ + 1] ELSE g
    [] op = "DropDetached" -> [g EXCEPT !.unw = @ \ {a}]
    [] OTHER -> g

\* ledger after the "call" half / after the whole call, with the sticky precondition flags
LC(op, a, b)         == Mark(LedCall(led, op, a, b), ob, Cause(op))
LR(op, a, b, d, ret) == Mark(LedRet(LC(op, a, b), op, a, b, d, ret), ob, Cause(op))

\* C03/C14 bookkeeping when a public call drops a handle to o (g2 = ledger without it)
\* Known finding D-C (KNOWN_FINDINGS.json): the orphan test trusts the RECORDED adoptions.
\* When a recorded handle was removed without unadopt, the record is stale, and a group can
\* pass the test although one of its members is still referenced from outside.  DCSet is
\* the exact ledger-side description of that event: at the drop of a handle to X, let V be
\* what the trace visits (forward closure of X under the records) and K = V plus the
\* adopters of V; the group K is collected iff every member's handles are covered by the
\* records held in V.  If that holds only because a record in it is stale, the destruction
\* of K's members (and later accesses to their memory through the program's dangling
\* handles) is the known finding.  Anything else is a different violation.
RECURSIVE FwdClosure(_, _, _)
FwdClosure(g, x, V) ==
  LET nxt == {m \in LiveIn(g, x) : \E n \in V : g.rec[n][m] > 0}
  IN IF nxt \subseteq V THEN V ELSE FwdClosure(g, x, V \cup nxt)
DCSet(g, x, X) ==
  IF X \notin LiveIn(g, x) \/ HandlesIn(g, X) = 0 THEN {}
  ELSE LET V == FwdClosure(g, x, {X})
           K == V \cup {a \in LiveIn(g, x) : \E m \in V : g.rec[a][m] > 0}
           covered == \A k \in K : HandlesIn(g, k) <= SumSet([n \in Obj |-> g.rec[n][k]], V)
           stale == \E n \in V, k \in K : g.rec[n][k] > g.valS[n][k]
       IN IF covered /\ stale /\ (\E n \in V, m \in V : g.rec[n][m] > 0) THEN K ELSE {}

\* C14: "an object that currently has no recorded adoption" is a statement about the calls
\* made (never adopted, every adoption removed again, or the other end destroyed), so it is
\* evaluated on the ledger, not on the library's table
LedEmpty(g, o) == /\ g.recL[o] = 0
                  /\ \A b \in Obj : g.rec[o][b] = 0 /\ g.rec[b][o] = 0
DropObs(x, g2, o) ==
  [x EXCEPT !.must = @ \cup MustDie(g2, x, o),
            !.dcset = @ \cup DCSet(g2, x, o),
            !.empty0 = LedEmpty(g2, o)]

\* C16: cloning a strong handle aborts the process iff the object is already destroyed
\* (strong is 0 or usize::MAX); evaluated on the state before the call
CloneFlag(o, ret) ==
  IF (ret = "abort") # (heap.mem[o] = "alloc" /\ heap.strong[o] \in {0, UNINIT})
  THEN {"C16"} ELSE {}

\* C05: Weak::upgrade answers Some iff the value has not been (is not being) destroyed
UpgradeFlag(o, some) ==
  IF some # (heap.mem[o] = "alloc" /\ heap.vinit[o] /\ ob.nd[o] = 0 /\ ~led.gone[o])
  THEN {"C05"} ELSE {}

-----------------------------------------------------------------------------
(* Public calls.  Each is written against a `base` stack so that the same   *)
(* definition serves a top-level call (base = <<>>) and a call scripted in  *)
(* a destructor (base = the current stack with the frame advanced).         *)

\* inc_strong (src/rc.rs:1782-1799)
IncKind(o) == IF heap.mem[o] # "alloc" THEN "uaf"
              ELSE IF heap.strong[o] \in {0, UNINIT} THEN "abort" ELSE "ok"

DoClone(o, op, a, b, x2, base) ==
  CASE IncKind(o) = "ok" ->
         Commit([heap EXCEPT !.strong[o] = @ + 1], LR(op, a, b, NoScript, "ok"),
                [x2 EXCEPT !.ret = "ok", !.flags = @ \cup CloneFlag(o, "ok")], [ctl EXCEPT !.stack = base])
    [] IncKind(o) = "abort" ->
         Commit(heap, led, [x2 EXCEPT !.ret = "abort", !.flags = @ \cup CloneFlag(o, "abort")],
                [ctl EXCEPT !.mode = "aborted"])
    [] OTHER -> Crash(<<"uaf", o>>)

Done(h, op, a, b, d, ret, top, base) ==     \* an atomic call completes
  Commit(h, LR(op, a, b, d, ret), [ObFor(top, op, a, b) EXCEPT !.ret = ret],
         [ctl EXCEPT !.stack = base])

\* the value of `a` can be named: it is intact, or we are inside its own destructor
CanOpen(a, top) == \/ Intact(a) /\ ob.nd[a] = 0
                   \/ ~top /\ Stack # <<>> /\ Top.pc = "value" /\ Top.o = a

OpNew(d, top, base) ==
  /\ \E o \in Obj :
       /\ ~led.made[o] /\ \A p \in Obj : p < o => led.made[p]
       /\ d = NoScript \/ Cardinality({p \in Obj : led.dtor[p] # NoScript}) < Caps.scripted
       /\ Done([heap EXCEPT !.mem[o] = "alloc", !.strong[o] = 1, !.weak[o] = 1,
                            !.vinit[o] = TRUE, !.linit[o] = TRUE],
               "New", o, 0, d, "ok", top, base)

OpCloneRoot(o, top, base) ==
  /\ led.rootS[o] > 0 /\ Handles(o) < Caps.strong
  /\ DoClone(o, "CloneRoot", o, 0, ObFor(top, "CloneRoot", o, 0), base)

OpCloneStored(a, o, top, base) ==
  /\ CanOpen(a, top) /\ led.valS[a][o] > 0 /\ Handles(o) < Caps.strong
  /\ DoClone(o, "CloneStored", a, o, ObFor(top, "CloneStored", a, o), base)

OpDropRoot(o, top, base) ==
  /\ led.rootS[o] > 0
  /\ LET g2 == LC("DropRoot", o, 0)
     IN Commit(heap, g2, DropObs([ObFor(top, "DropRoot", o, 0) EXCEPT !.ret = "unit", !.tret = IF top THEN "unit" ELSE @], g2, o),
               [ctl EXCEPT !.stack = <<Frame("drop", o)>> \o base])

OpStore(a, o, top, base) ==        \* move a root handle of o into a's value: no library call
  /\ led.rootS[o] > 0 /\ Intact(a) /\ ob.nd[a] = 0 /\ led.valS[a][o] < Caps.stored
  /\ Done(heap, "Store", a, o, NoScript, "ok", top, base)

OpTake(a, o, top, base) ==         \* move a handle out of a's value: no library call
  /\ CanOpen(a, top) /\ led.valS[a][o] > 0
  /\ Caps.elide \/ led.rec[a][o] < led.valS[a][o]
  /\ top \/ (Intact(o) /\ ob.nd[o] = 0)      \* a destructor may keep handles to objects that are not dying
  /\ Done(heap, "Take", a, o, NoScript, "ok", top, base)

OpDropStored(a, o, top, base) ==
  /\ CanOpen(a, top) /\ led.valS[a][o] > 0
  /\ Caps.elide \/ led.rec[a][o] < led.valS[a][o]
  /\ LET g2 == LC("DropStored", a, o)
     IN Commit(heap, g2, DropObs([ObFor(top, "DropStored", a, o) EXCEPT !.ret = "unit", !.tret = IF top THEN "unit" ELSE @], g2, o),
               [ctl EXCEPT !.stack = <<Frame("drop", o)>> \o base])

\* adopt_unchecked(this, other) through two distinct handle objects (src/adopt.rs:136-166)
AdoptHeap(h, a, b) ==
  [h EXCEPT !.links[a][<<"F", b>>] = @ + 1, !.links[b][<<"B", a>>] = @ + 1,
            !.tbl[a] = TRUE, !.tbl[b] = TRUE]
UnadoptHeap(h, a, b) ==
  [h EXCEPT !.links = [[@ EXCEPT ![a] = Remove(@, <<"F", b>>, 1)]
                          EXCEPT ![b] = Remove(@, <<"B", a>>, 1)]]
CanName(a, b) == /\ Intact(a) /\ Intact(b) /\ ob.nd[a] = 0 /\ ob.nd[b] = 0
                 /\ IF a = b THEN AccS(a) >= 2 ELSE AccS(a) >= 1 /\ AccS(b) >= 1

OpAdopt(a, b, top, base) ==
  /\ CanName(a, b) /\ led.rec[a][b] < Caps.rec
  /\ Caps.over \/ led.rec[a][b] < led.valS[a][b]
  /\ Done(AdoptHeap(heap, a, b), "Adopt", a, b, NoScript, "ok", top, base)

OpUnadopt(a, b, top, base) ==
  /\ CanName(a, b)
  /\ Done(UnadoptHeap(heap, a, b), "Unadopt", a, b, NoScript, "ok", top, base)

\* adopt_unchecked(&h, &h): the very same handle object on both sides (Loopback)
OpAdoptSame(a, top, base) ==
  /\ Intact(a) /\ ob.nd[a] = 0 /\ AccS(a) >= 1 /\ led.recL[a] < Caps.rec
  /\ Done([heap EXCEPT !.links[a][<<"L", a>>] = @ + 1, !.tbl[a] = TRUE],
          "AdoptSame", a, 0, NoScript, "ok", top, base)

OpUnadoptSame(a, top, base) ==
  /\ Intact(a) /\ ob.nd[a] = 0 /\ AccS(a) >= 1
  /\ Done([heap EXCEPT !.links[a] = Remove(@, <<"L", a>>, 1)],
          "UnadoptSame", a, 0, NoScript, "ok", top, base)

\* the documented idiom: record, then store (two calls, nothing in between); the root
\* handle that is stored is `other`, so `this` must be another handle object
OpAdoptStore(a, o, top, base) ==
  /\ led.rootS[o] > 0 /\ led.valS[a][o] < Caps.stored /\ led.rec[a][o] < Caps.rec
  /\ CanName(a, o)
  /\ Done(AdoptHeap(heap, a, o), "AdoptStore", a, o, NoScript, "ok", top, base)

\* "graph" family: one recorded edge a -> o in one step (clone a root handle of o, adopt it,
\* store it in a), only while nothing has been dropped yet.  Scripts expand it into
\* CloneRoot(o) ; AdoptStore(a, o), so traces contain ordinary calls only.
OpEdge(a, o, top, base) ==
  /\ ~led.tore /\ led.rootS[o] > 0 /\ led.rootS[a] > 0 /\ led.valS[a][o] < Caps.stored /\ led.rec[a][o] < Caps.rec
  /\ \A p \in Obj : led.made[p]                                       \* all objects first, then the edges
  /\ SumObj([x \in Obj |-> SumObj(led.rec[x])]) < Caps.edges
  /\ Intact(a) /\ Intact(o)
  /\ Commit(AdoptHeap([heap EXCEPT !.strong[o] = @ + 1], a, o),
            [led EXCEPT !.rec[a][o] = @ + 1, !.adopted = TRUE, !.valS[a][o] = @ + 1],
            [ObFor(top, "Edge", a, o) EXCEPT !.ret = "ok"], [ctl EXCEPT !.stack = base])

\* the documented idiom: take out, then unadopt (the taken handle is `other`)
OpTakeUnadopt(a, o, top, base) ==
  /\ Intact(a) /\ ob.nd[a] = 0 /\ led.valS[a][o] > 0 /\ Intact(o) /\ ob.nd[o] = 0
  /\ IF a = o THEN AccS(a) >= 2 ELSE AccS(a) >= 1
  /\ Done(UnadoptHeap(heap, a, o), "TakeUnadopt", a, o, NoScript, "ok", top, base)

(* ---- Weak handles (src/rc.rs:613-621, 1555-1563, 1691-1730) ---- *)

OpDowngrade(o, top, base) ==
  /\ Intact(o) /\ ob.nd[o] = 0 /\ AccS(o) >= 1 /\ WeakHandles(o) < Caps.weak
  /\ Done([heap EXCEPT !.weak[o] = @ + 1], "Downgrade", o, 0, NoScript, "ok", top, base)

\* Rc::downgrade through a handle stored in a's value (possibly from inside a's destructor, when
\* o may already be destroyed: the Weak is legal and keeps o's allocation); the Weak escapes
OpDowngradeStored(a, o, top, base) ==
  /\ CanOpen(a, top) /\ led.valS[a][o] > 0 /\ WeakHandles(o) < Caps.weak
  /\ IF heap.mem[o] # "alloc" THEN Crash(<<"uaf", o>>)
     ELSE IF heap.weak[o] = 0
     THEN Commit(heap, led, [ObFor(top, "DowngradeStored", a, o) EXCEPT !.ret = "abort"],
                 [ctl EXCEPT !.mode = "aborted"])
     ELSE Done([heap EXCEPT !.weak[o] = @ + 1], "DowngradeStored", a, o, NoScript, "ok", top, base)

\* Weak::upgrade through a Weak handle to o; the new strong handle (if any) becomes a root
DoUpgrade(o, op, a, b, top, base) ==
  IF heap.mem[o] # "alloc" THEN Crash(<<"uaf", o>>)
  ELSE LET some == heap.strong[o] \notin {0, UNINIT}
           ret  == IF some THEN "some" ELSE "none"
           x3   == [ObFor(top, op, a, b) EXCEPT !.ret = ret, !.flags = @ \cup UpgradeFlag(o, some)]
       IN Commit(IF some THEN [heap EXCEPT !.strong[o] = @ + 1] ELSE heap,
                 LR(op, a, b, NoScript, ret), x3, [ctl EXCEPT !.stack = base])

OpUpgrade(o, top, base) ==
  /\ led.rootW[o] > 0 /\ Handles(o) < Caps.strong + 1
  /\ DoUpgrade(o, "Upgrade", o, 0, top, base)

OpUpgradeStored(a, o, top, base) ==
  /\ led.valW[a][o] > 0 /\ Handles(o) < Caps.strong + 1
  /\ CanOpen(a, top)
  /\ DoUpgrade(o, "UpgradeStored", a, o, top, base)

OpWeakClone(o, top, base) ==
  /\ led.rootW[o] > 0 /\ WeakHandles(o) < Caps.weak
  /\ IF heap.mem[o] # "alloc" THEN Crash(<<"uaf", o>>)
     ELSE IF heap.weak[o] = 0
     THEN Commit(heap, led, [ObFor(top, "WeakClone", o, 0) EXCEPT !.ret = "abort"],
                 [ctl EXCEPT !.mode = "aborted"])
     ELSE Done([heap EXCEPT !.weak[o] = @ + 1], "WeakClone", o, 0, NoScript, "ok", top, base)

\* Weak::drop (src/rc.rs:1691-1709): one critical section
WeakDropHeap(h, x, o) ==     \* returns [h, x] after dropping one Weak handle to o
  IF h.mem[o] # "alloc" THEN [h |-> h, x |-> [x EXCEPT !.ub = @ \cup {<<"uaf", o>>}]]
  ELSE IF h.weak[o] = 0 THEN [h |-> h, x |-> [x EXCEPT !.ub = @ \cup {<<"weak_underflow", o>>}]]
  ELSE IF h.weak[o] = 1
  THEN [h |-> [h EXCEPT !.weak[o] = 0, !.mem[o] = "freed"], x |-> [x EXCEPT !.nf[o] = @ + 1]]
  ELSE [h |-> [h EXCEPT !.weak[o] = @ - 1], x |-> x]

CommitHX(r, g, c) ==
  Commit(r.h, g, r.x, IF r.x.ub # {} THEN [ctl EXCEPT !.mode = "crashed"] ELSE c)

OpWeakDrop(o, top, base) ==
  /\ led.rootW[o] > 0
  /\ CommitHX(WeakDropHeap(heap, [ObFor(top, "WeakDrop", o, 0) EXCEPT !.ret = "ok"], o),
              LR("WeakDrop", o, 0, NoScript, "ok"), [ctl EXCEPT !.stack = base])

OpStoreWeak(a, o, top, base) ==
  /\ led.rootW[o] > 0 /\ Intact(a) /\ ob.nd[a] = 0 /\ led.valW[a][o] < Caps.storedW
  /\ Done(heap, "StoreWeak", a, o, NoScript, "ok", top, base)

OpTakeWeak(a, o, top, base) ==
  /\ Intact(a) /\ ob.nd[a] = 0 /\ led.valW[a][o] > 0
  /\ Done(heap, "TakeWeak", a, o, NoScript, "ok", top, base)

\* ---- purge of drop_unreachable_with_adoptions (src/drop.rs:375-396) ----
RECURSIVE PurgeFold(_, _, _)
PurgeFold(hx, o, E) ==      \* hx = [h, ub]; E = entries of o's table still to process
  IF E = {} \/ hx.ub # {} THEN hx
  ELSE LET e == CHOOSE e \in E : TRUE
           p == e[2]
           n == hx.h.links[o][e]
       IN IF p = o THEN PurgeFold(hx, o, E \ {e})
          ELSE IF ~(hx.h.mem[p] = "alloc") THEN [hx EXCEPT !.ub = {<<"uaf", p>>}]
          ELSE IF ~hx.h.linit[p] THEN [hx EXCEPT !.ub = {<<"stale_links", p>>}]
          ELSE PurgeFold([hx EXCEPT !.h.links[p] = Remove(Remove(@, <<"F", o>>, n), <<"B", o>>, n)],
                         o, E \ {e})

(* ---- handle-consuming APIs (src/rc.rs:432-452, 511-515, 590-599, 687-725, 882-919) ---- *)

\* Variant.consume = "purge": try_unwrap / make_mut first unlink the allocation they give up
\* from its peers and drop its table; "ignore": they never look at the table (pinned tree)
GiveUp(h, o) ==
  IF Variant.consume = "purge"
  THEN LET r == PurgeFold([h |-> h, ub |-> {}], o, Entries(h, o))
       IN [r.h EXCEPT !.links[o] = NoLinks, !.linit[o] = FALSE, !.tbl[o] = FALSE]
  ELSE h

OpTryUnwrap(o, top, base) ==
  /\ led.rootS[o] > 0 /\ Intact(o) /\ ob.nd[o] = 0
  /\ IF heap.strong[o] = 1
     THEN LET h1 == GiveUp(heap, o)
              h2 == [h1 EXCEPT !.vinit[o] = FALSE, !.strong[o] = 0]
              r  == WeakDropHeap(h2, [ObFor(top, "TryUnwrap", o, 0) EXCEPT !.ret = "ok"], o)
          IN CommitHX(r, LR("TryUnwrap", o, 0, NoScript, "ok"), [ctl EXCEPT !.stack = base])
     ELSE Done(heap, "TryUnwrap", o, 0, NoScript, "err", top, base)

OpGetMut(o, top, base) ==
  /\ led.rootS[o] > 0 /\ Intact(o) /\ ob.nd[o] = 0
  /\ Done(heap, "GetMut", o, 0, NoScript,
          IF heap.strong[o] = 1 /\ heap.weak[o] = 1 THEN "some" ELSE "none", top, base)

FreshObj(b) == ~led.made[b] /\ \A p \in Obj : p < b => led.made[p]

OpMakeMutX(op, o, top, base) ==
  /\ led.rootS[o] > 0 /\ Intact(o) /\ ob.nd[o] = 0
  /\ IF heap.strong[o] # 1
     THEN IF op = "MakeMutP"
          THEN \* T::clone panics: the uninitialised allocation make_mut reserved is released
               \* while the call unwinds (its value was never created: nothing is destroyed);
               \* the handle, the value and every count are as before the call
               Done(heap, op, o, 0, NoScript, "cpanic", top, base)
          ELSE
          \* clone the value into a fresh allocation, then `*this = new` drops the old handle
          \E b \in Obj :
            /\ FreshObj(b)
            /\ \A t \in Obj : Handles(t) + led.valS[o][t] <= Caps.strong + 1
            /\ IF op = "MakeMut" /\ \E t \in Obj : led.valS[o][t] > 0 /\ IncKind(t) # "ok"
               THEN Commit(heap, led, [ObFor(top, op, o, b) EXCEPT !.ret = "abort"],
                           [ctl EXCEPT !.mode = "aborted"])
               ELSE LET sh == op = "MakeMutS"
                        h1 == [heap EXCEPT !.mem[b] = "alloc", !.strong[b] = 1, !.weak[b] = 1,
                                           !.vinit[b] = TRUE, !.linit[b] = TRUE,
                                           !.strong = [t \in Obj |-> IF t = b THEN 1 ELSE @[t] + (IF sh THEN 0 ELSE led.valS[o][t])],
                                           !.weak   = [t \in Obj |-> IF t = b THEN 1 ELSE @[t] + (IF sh THEN 0 ELSE led.valW[o][t])]]
                        g2 == LR(op, o, b, NoScript, "cloned")
                    IN Commit(h1, g2,
                              DropObs([ObFor(top, op, o, b) EXCEPT !.ret = "cloned", !.tret = IF top THEN "cloned" ELSE @], g2, o),
                              [ctl EXCEPT !.stack = <<Frame("drop", o)>> \o base])
     ELSE IF heap.weak[o] # 1
     THEN \* only Weak handles besides ours: steal the value
          \E b \in Obj :
            /\ FreshObj(b)
            /\ LET h0 == GiveUp(heap, o)
                   h1 == [h0 EXCEPT !.mem[b] = "alloc", !.strong[b] = 1, !.weak[b] = 1,
                                    !.vinit[b] = TRUE, !.linit[b] = TRUE,
                                    !.vinit[o] = FALSE, !.strong[o] = 0, !.weak[o] = @ - 1]
               IN Commit(h1, LR(op, o, b, NoScript, "moved"), [ObFor(top, op, o, b) EXCEPT !.ret = "moved"],
                         [ctl EXCEPT !.stack = base])
     ELSE Done(heap, op, o, 0, NoScript, "unique", top, base)
OpMakeMut(o, top, base) == OpMakeMutX("MakeMut", o, top, base)

OpIntoRaw(o, top, base) ==
  /\ led.rootS[o] > 0
  /\ Done(heap, "IntoRaw", o, 0, NoScript, "ok", top, base)
OpFromRaw(o, top, base) ==
  /\ led.raw[o] > 0
  /\ Done(heap, "FromRaw", o, 0, NoScript, "ok", top, base)
\* Weak::into_raw / Weak::from_raw (src/rc.rs:1396-1430): pure pointer conversions
OpWeakIntoRaw(o, top, base) ==
  /\ led.rootW[o] > 0
  /\ Done(heap, "WeakIntoRaw", o, 0, NoScript, "ok", top, base)
OpWeakFromRaw(o, top, base) ==
  /\ led.rawW[o] > 0
  /\ Done(heap, "WeakFromRaw", o, 0, NoScript, "ok", top, base)
OpIncStrong(o, top, base) ==
  /\ led.raw[o] > 0 /\ Handles(o) < Caps.strong
  /\ DoClone(o, "IncStrong", o, 0, ObFor(top, "IncStrong", o, 0), base)
\* Rc::increment_strong_count on the pointer of a handle stored in a's value
OpIncStrongStored(a, o, top, base) ==
  /\ CanOpen(a, top) /\ led.valS[a][o] > 0 /\ Handles(o) < Caps.strong
  /\ DoClone(o, "IncStrongStored", a, o, ObFor(top, "IncStrongStored", a, o), base)
OpDecStrong(o, top, base) ==
  /\ led.raw[o] > 0
  /\ LET g2 == LC("DecStrong", o, 0)
     IN Commit(heap, g2, DropObs([ObFor(top, "DecStrong", o, 0) EXCEPT !.ret = "unit", !.tret = IF top THEN "unit" ELSE @], g2, o),
               [ctl EXCEPT !.stack = <<Frame("drop", o)>> \o base])

\* the caller drops a value it got from try_unwrap: destructor, then the stored handles
OpDropDetached(o, top, base) ==
  /\ o \in led.unw /\ ob.nd[o] = 0
  /\ Commit(heap, LR("DropDetached", o, 0, NoScript, "unit"),
            [ObFor(top, "DropDetached", o, 0) EXCEPT !.ret = "unit", !.tret = IF top THEN "unit" ELSE @],
            [ctl EXCEPT !.stack = <<[Frame("value", o) EXCEPT !.ph = "enter"]>> \o base])

\* pure functions of the shared API (ptr_eq, comparison, formatting, hashing, Weak::new ...):
\* no state change; the harness computes the same digest on cactusref and on std::rc
OpMisc(top, base) == Done(heap, "Misc", 0, 0, NoScript, "same", top, base)

\* dispatch by name (used by destructor scripts and by the trace specification)
CallOp(op, a, b, d, top, base) ==
  CASE op = "New"         -> OpNew(d, top, base)
    [] op = "CloneRoot"   -> OpCloneRoot(a, top, base)
    [] op = "CloneStored" -> OpCloneStored(a, b, top, base)
    [] op = "DropRoot"    -> OpDropRoot(a, top, base)
    [] op = "Store"       -> OpStore(a, b, top, base)
    [] op = "Take"        -> OpTake(a, b, top, base)
    [] op = "DropStored"  -> OpDropStored(a, b, top, base)
    [] op = "Adopt"       -> OpAdopt(a, b, top, base)
    [] op = "Unadopt"     -> OpUnadopt(a, b, top, base)
    [] op = "AdoptSame"   -> OpAdoptSame(a, top, base)
    [] op = "UnadoptSame" -> OpUnadoptSame(a, top, base)
    [] op = "AdoptStore"  -> OpAdoptStore(a, b, top, base)
    [] op = "TakeUnadopt" -> OpTakeUnadopt(a, b, top, base)
    [] op = "Downgrade"   -> OpDowngrade(a, top, base)
    [] op = "DowngradeStored" -> OpDowngradeStored(a, b, top, base)
    [] op = "IncStrongStored" -> OpIncStrongStored(a, b, top, base)
    [] op = "Upgrade"     -> OpUpgrade(a, top, base)
    [] op = "UpgradeStored" -> OpUpgradeStored(a, b, top, base)
    [] op = "WeakClone"   -> OpWeakClone(a, top, base)
    [] op = "WeakDrop"    -> OpWeakDrop(a, top, base)
    [] op = "StoreWeak"   -> OpStoreWeak(a, b, top, base)
    [] op = "TakeWeak"    -> OpTakeWeak(a, b, top, base)
    [] op = "TryUnwrap"   -> OpTryUnwrap(a, top, base)
    [] op = "GetMut"      -> OpGetMut(a, top, base)
    [] op = "MakeMut"     -> OpMakeMut(a, top, base)
    [] op = "MakeMutS"    -> OpMakeMutX("MakeMutS", a, top, base)
    [] op = "MakeMutP"    -> OpMakeMutX("MakeMutP", a, top, base)
    [] op = "IntoRaw"     -> OpIntoRaw(a, top, base)
    [] op = "FromRaw"     -> OpFromRaw(a, top, base)
    [] op = "IncStrong"   -> OpIncStrong(a, top, base)
    [] op = "WeakIntoRaw" -> OpWeakIntoRaw(a, top, base)
    [] op = "WeakFromRaw" -> OpWeakFromRaw(a, top, base)
    [] op = "DecStrong"   -> OpDecStrong(a, top, base)
    [] op = "DropDetached" -> OpDropDetached(a, top, base)
    [] op = "Misc"        -> OpMisc(top, base)
    [] OTHER -> FALSE

-----------------------------------------------------------------------------
(* Rc::drop as micro-steps (src/drop.rs).  One action per critical section. *)

\* ---- cycle_refs (src/cycle.rs:41-72): worklist trace over Forward/Loopback entries ----
\* The result does not depend on the pop order, so the trace is one action.
FKey(k) == IF Variant.loop = "merged" /\ k[1] = "L" THEN <<"F", k[2]>> ELSE k
Follows(k) == IF Variant.loop = "ignored" THEN k[1] = "F" ELSE k[1] \in {"F", "L"}

RECURSIVE VisitClosure(_, _)
VisitClosure(h, V) ==       \* V: set of visited keys (the `visited` set of the code)
  LET ok  == {k \in V : h.mem[k[2]] = "alloc" /\ h.linit[k[2]]}
      nxt == {FKey(e) : e \in UNION {{e \in Entries(h, k[2]) : Follows(e)} : k \in ok}}
  IN IF nxt \subseteq V THEN V ELSE VisitClosure(h, V \cup nxt)

TraceFrom(h, o) ==
  LET V    == VisitClosure(h, {<<"F", o>>})
      bad  == {k \in V : ~(h.mem[k[2]] = "alloc" /\ h.linit[k[2]])}
      fwd  == UNION {{FKey(e) : e \in {e \in Entries(h, k[2]) : Follows(e)}} : k \in V \ bad}
      bwd  == UNION {{<<"F", e[2]>> : e \in {e \in Entries(h, k[2]) : e[1] = "B"}} : k \in V \ bad}
      keys == fwd \cup bwd
      own(c) == SumSet([k \in V \ bad |->
                         SumSet([e \in Key |-> IF Follows(e) /\ FKey(e) = c THEN h.links[k[2]][e] ELSE 0],
                                Entries(h, k[2]))], V \ bad)
      npush == SumSet([k \in V \ bad |-> Cardinality({e \in Entries(h, k[2]) : Follows(e)})], V \ bad)
  IN [cyc |-> [c \in keys |-> own(c)], bad |-> bad, nvisit |-> Cardinality(V), npop |-> 1 + npush,
      nlinks |-> npush]

\* ---- drop_cycle P1: bust links and decrement (src/drop.rs:224-267) ----
RECURSIVE BustFold(_, _, _)
BustFold(hx, cyc, K) ==
  IF K = {} \/ hx.ub # {} THEN hx
  ELSE LET k == CHOOSE k \in K : TRUE
           m == k[2]
       IN IF hx.h.mem[m] # "alloc" THEN [hx EXCEPT !.ub = {<<"uaf", m>>}]
          ELSE IF ~hx.h.linit[m] THEN [hx EXCEPT !.ub = {<<"stale_links", m>>}]
          ELSE LET ext  == {e \in Entries(hx.h, m) : e[1] \in {"F", "L"} /\
                              (IF Variant.loop = "split" THEN e \in DOMAIN cyc
                               ELSE IF Variant.loop = "merged" THEN FKey(e) \in DOMAIN cyc
                               ELSE e[1] = "F" /\ e \in DOMAIN cyc)}
                   sumF == SumSet([e \in Key |-> IF e[1] = "F" THEN hx.h.links[m][e] ELSE 0], ext)
                   amt  == IF Variant.bust = "out" THEN sumF ELSE cyc[k]
                   st   == hx.h.strong[m]
                   dec  == IF st = UNINIT THEN amt ELSE Min(amt, st)
               IN IF st = UNINIT /\ dec > 0 THEN [hx EXCEPT !.ub = {<<"dec_uninit", m>>}]
                  ELSE BustFold([hx EXCEPT !.h.links[m] = [e \in Key |-> IF e \in ext THEN 0 ELSE @[e]],
                                           !.h.strong[m] = @ - dec],
                                cyc, K \ {k})

\* ---- drop_cycle P4: release the members (src/drop.rs:300-338) ----
RECURSIVE ReleaseFold(_, _)
ReleaseFold(hx, K) ==       \* hx = [h, nf, ub]
  IF K = {} \/ hx.ub # {} THEN hx
  ELSE LET k == CHOOSE k \in K : TRUE
           m == k[2]
       IN IF hx.h.mem[m] # "alloc" THEN [hx EXCEPT !.ub = {<<"uaf", m>>}]
          ELSE IF hx.h.strong[m] \notin {0, UNINIT} THEN ReleaseFold(hx, K \ {k})
          ELSE IF hx.h.weak[m] = 0 THEN [hx EXCEPT !.ub = {<<"weak_underflow", m>>}]
          ELSE IF hx.h.weak[m] = 1
          THEN ReleaseFold([hx EXCEPT !.h.weak[m] = 0, !.h.mem[m] = "freed", !.nf[m] = @ + 1], K \ {k})
          ELSE ReleaseFold([hx EXCEPT !.h.weak[m] = @ - 1], K \ {k})

Pop == Tail(Stack)
SetTop(f) == <<f>> \o Tail(Stack)

\* D0-D4: entry, decrement, choice of teardown path
StepDrop ==
  /\ Running /\ Stack # <<>> /\ Top.pc = "drop"
  /\ LET o == Top.o IN
     IF heap.mem[o] # "alloc" THEN Crash(<<"uaf", o>>)
     ELSE IF heap.strong[o] \in {0, UNINIT}                    \* inert handle of a dead object
     THEN Commit(heap, led, RetTo(led, ob, Pop), [ctl EXCEPT !.stack = Pop])
     ELSE IF ~heap.linit[o] THEN Crash(<<"stale_links", o>>)
     ELSE
       LET h1 == [heap EXCEPT !.strong[o] = @ - 1]
           s1 == heap.strong[o] - 1
       IN
       IF Entries(heap, o) = {}
       THEN IF s1 = 0
            THEN Commit(h1, led, ob, [ctl EXCEPT !.stack = SetTop(Frame("uninit", o))])
            ELSE Commit(h1, led, RetTo(led, ob, Pop), [ctl EXCEPT !.stack = Pop])
       ELSE IF s1 = 0
       THEN \* drop_unreachable_with_adoptions: purge this object from its peers' tables
            LET r == PurgeFold([h |-> h1, ub |-> {}], o, Entries(heap, o))
            IN IF r.ub # {} THEN Commit(h1, led, [ob EXCEPT !.ub = @ \cup r.ub], [ctl EXCEPT !.mode = "crashed"])
               ELSE Commit([r.h EXCEPT !.links[o] = NoLinks], led, ob,
                           [ctl EXCEPT !.stack = SetTop(Frame("uninit", o))])
       ELSE \* still referenced: trace the adoption graph
            LET t == TraceFrom(h1, o)
                x2 == [ob EXCEPT !.ntrace = @ + 1, !.npop = @ + t.npop, !.nvisit = @ + t.nvisit,
                                 !.nalloc = @ + 1, !.nlinks = @ + t.nlinks,
                                 !.nmember = @ + Cardinality(DOMAIN t.cyc),
                                 !.flags = @ \cup (IF Stack = <<Top>> /\ ob.empty0 THEN {"C14"} ELSE {})
                                                 \cup (IF t.nvisit > Cardinality(Made(led)) \/ t.npop > t.nlinks + 1
                                                       THEN {"C15"} ELSE {})]
            IN IF t.bad # {}
               THEN Commit(h1, led, [x2 EXCEPT !.ub = @ \cup {<<"stale_links", k[2]>> : k \in t.bad}],
                           [ctl EXCEPT !.mode = "crashed"])
               ELSE Commit(h1, led, x2, [ctl EXCEPT !.stack = SetTop([Frame("orphan", o) EXCEPT !.cyc = t.cyc])])

\* D5: the orphan test (src/cycle.rs:28-35) is a short-circuiting `any` in table order
StepOrphan ==
  /\ Running /\ Stack # <<>> /\ Top.pc = "orphan"
  /\ LET cyc   == Top.cyc
         K     == DOMAIN cyc
         freed == {k \in K : heap.mem[k[2]] # "alloc"}
         ext   == {k \in K \ freed : heap.strong[k[2]] = UNINIT \/ heap.strong[k[2]] > cyc[k]}
     IN \/ /\ freed # {}
           /\ Crash(<<"uaf", (CHOOSE k \in freed : TRUE)[2]>>)
        \/ /\ ext # {}
           /\ Commit(heap, led, RetTo(led, ob, Pop), [ctl EXCEPT !.stack = Pop])
        \/ /\ ext = {} /\ freed = {}
           /\ Commit(heap, led, ob, [ctl EXCEPT !.stack = SetTop([Top EXCEPT !.pc = "bust"])])

\* P1
StepBust ==
  /\ Running /\ Stack # <<>> /\ Top.pc = "bust"
  /\ LET r == BustFold([h |-> heap, ub |-> {}], Top.cyc, DOMAIN Top.cyc)
     IN IF r.ub # {} THEN Commit(heap, led, [ob EXCEPT !.ub = @ \cup r.ub], [ctl EXCEPT !.mode = "crashed"])
        ELSE Commit(r.h, led, ob, [ctl EXCEPT !.stack = SetTop([Top EXCEPT !.pc = "mark"])])

\* P2: mark dead members uninit, move value and table out; the order of `inners` is the
\* table order of the cycle map: every permutation is explored
MarkFreed == {k \in DOMAIN Top.cyc : heap.mem[k[2]] # "alloc"}
MarkSet   == {k[2] : k \in {k \in DOMAIN Top.cyc \ MarkFreed : heap.strong[k[2]] = 0}}
IsOrderOf(order, S) == Len(order) = Cardinality(S) /\ {order[i] : i \in 1..Len(order)} = S
StepMarkO(order) ==          \* with the destruction order given (the trace specification reads it from the log)
  /\ Running /\ Stack # <<>> /\ Top.pc = "mark"
  /\ LET mv == MarkSet
     IN IF MarkFreed # {} THEN Crash(<<"uaf", (CHOOSE k \in MarkFreed : TRUE)[2]>>)
        ELSE /\ IsOrderOf(order, mv)
             /\ Commit([heap EXCEPT !.strong = [o \in Obj |-> IF o \in mv THEN UNINIT ELSE @[o]],
                                    !.vinit  = [o \in Obj |-> IF o \in mv THEN FALSE ELSE @[o]],
                                    !.linit  = [o \in Obj |-> IF o \in mv THEN FALSE ELSE @[o]]],
                       led, ob,
                       [ctl EXCEPT !.stack = SetTop([Top EXCEPT !.pc = "cdestroy", !.s = order])])
StepMark ==
  /\ Running /\ Stack # <<>> /\ Top.pc = "mark"
  /\ \E order \in (IF MarkFreed # {} THEN {<<>>} ELSE SeqsOf(MarkSet)) : StepMarkO(order)

\* P3: drop(inners), one (value, table) pair at a time
StepCycleDestroy ==
  /\ Running /\ Stack # <<>> /\ Top.pc = "cdestroy"
  /\ IF Top.s = <<>>
     THEN Commit(heap, led, ob, [ctl EXCEPT !.stack = SetTop([Top EXCEPT !.pc = "release"])])
     ELSE Commit(heap, led, ob,
                 [ctl EXCEPT !.stack = <<[Frame("value", Head(Top.s)) EXCEPT !.tab = TRUE, !.ph = "enter"]>>
                                       \o SetTop([Top EXCEPT !.s = Tail(@)])])

\* P4
StepRelease ==
  /\ Running /\ Stack # <<>> /\ Top.pc = "release" /\ ~Top.uw
  /\ LET r == ReleaseFold([h |-> heap, nf |-> ob.nf, ub |-> {}], DOMAIN Top.cyc)
     IN IF r.ub # {}
        THEN Commit(r.h, led, [ob EXCEPT !.ub = @ \cup r.ub, !.nf = r.nf], [ctl EXCEPT !.mode = "crashed"])
        ELSE Commit(r.h, led, RetTo(led, [ob EXCEPT !.nf = r.nf], Pop), [ctl EXCEPT !.stack = Pop])

\* drop_unreachable / drop_unreachable_with_adoptions after the purge: make_uninit and
\* move the value out (src/drop.rs:186-196, 401-414); the table stays in place meanwhile
StepUninit ==
  /\ Running /\ Stack # <<>> /\ Top.pc = "uninit"
  /\ LET o == Top.o IN
     IF heap.mem[o] # "alloc" THEN Crash(<<"uaf", o>>)
     ELSE IF heap.strong[o] = UNINIT
     THEN Commit(heap, led, ob, [ctl EXCEPT !.stack = SetTop(Frame("postvalue", o))])
     ELSE Commit([heap EXCEPT !.strong[o] = UNINIT, !.vinit[o] = FALSE], led, ob,
                 [ctl EXCEPT !.stack = <<[Frame("value", o) EXCEPT !.ph = "enter"]>>
                                       \o SetTop([Frame("postvalue", o) EXCEPT !.tab = TRUE])])

\* table moved out and dropped, implicit weak released, allocation freed at weak = 0
\* (src/drop.rs:199-213, 417-435)
\* unwinding through a teardown: the implicit weak is never released, nothing is freed
\* (src/drop.rs has no unwind guard): the allocation and, in the plain paths, the table leak
StepUnwindSkip ==
  /\ Running /\ Stack # <<>> /\ Top.pc \in {"postvalue", "release"} /\ Top.uw
  /\ Commit(heap, led, RetTo(led, ob, Pop), [ctl EXCEPT !.stack = Pop])

StepPostValue ==
  /\ Running /\ Stack # <<>> /\ Top.pc = "postvalue" /\ ~Top.uw
  /\ LET o == Top.o IN
     IF heap.mem[o] # "alloc" THEN Crash(<<"uaf", o>>)
     ELSE LET h1 == IF Top.tab THEN [heap EXCEPT !.linit[o] = FALSE, !.tbl[o] = FALSE] ELSE heap
          IN IF h1.weak[o] = 0 THEN Crash(<<"weak_underflow", o>>)
             ELSE IF h1.weak[o] = 1
             THEN Commit([h1 EXCEPT !.weak[o] = 0, !.mem[o] = "freed"], led,
                         RetTo(led, [ob EXCEPT !.nf[o] = @ + 1], Pop), [ctl EXCEPT !.stack = Pop])
             ELSE Commit([h1 EXCEPT !.weak[o] = @ - 1], led, RetTo(led, ob, Pop), [ctl EXCEPT !.stack = Pop])

-----------------------------------------------------------------------------
(* Destruction of one value: the user's destructor, then the handles stored in it *)

\* T::drop is entered: from here on the value counts as destroyed
StepValueEnter ==
  /\ Running /\ Stack # <<>> /\ Top.pc = "value" /\ Top.ph = "enter"
  /\ LET o == Top.o IN
     Commit(heap, EraseRec(led, o),
            [ob EXCEPT !.nd[o] = @ + 1, !.dlog = Append(@, o),
                       !.ub = @ \cup (IF ob.nd[o] > 0 THEN {<<"double_drop", o>>} ELSE {})],
            [ctl EXCEPT !.stack = SetTop([Top EXCEPT !.ph = "script"])])

\* scripted destructor body (the only re-entrancy point of the library)
ScriptBase == SetTop([Top EXCEPT !.ph = "fields"])
\* a script names its call like a trace line does: [op, x, y]; calls on stored handles
\* act on the value being destroyed
ScriptCall(sc) ==
  IF sc.op \in {"UpgradeStored", "CloneStored", "DropStored", "Take", "DowngradeStored", "IncStrongStored"}
  THEN [op |-> sc.op, a |-> Top.o, b |-> sc.x]
  ELSE [op |-> IF sc.op = "UpgradeWeak" THEN "Upgrade" ELSE sc.op, a |-> sc.x, b |-> sc.y]
ScriptOp(sc) ==
  LET c == ScriptCall(sc) IN CallOp(c.op, c.a, c.b, NoScript, FALSE, ScriptBase)

\* T::drop panics: every frame on the stack starts unwinding.  What Rust still does on the
\* way out is modelled by the frames' own (uw) steps; a second panic while unwinding aborts.
Unwinding == \E i \in 1..Len(Stack) : Stack[i].uw
StepValuePanic ==
  /\ Running /\ Stack # <<>> /\ Top.pc = "value" /\ Top.ph = "script"
  /\ led.dtor[Top.o].op = "Panic"
  /\ IF \E i \in 2..Len(Stack) : Stack[i].uw
     THEN Commit(heap, led, [ob EXCEPT !.ret = "abort"], [ctl EXCEPT !.mode = "aborted"])
     ELSE Commit(heap,
                 [led EXCEPT !.panicked = @ \cup {o \in Made(led) : ~heap.vinit[o]}],
                 ob,
                 [ctl EXCEPT !.stack = [i \in 1..Len(Stack) |->
                                          IF i = 1 THEN [Stack[i] EXCEPT !.ph = "fields", !.uw = TRUE]
                                          ELSE [Stack[i] EXCEPT !.uw = TRUE]]])

StepValueScript ==
  /\ Running /\ Stack # <<>> /\ Top.pc = "value" /\ Top.ph = "script"
  /\ led.dtor[Top.o].op # "Panic"
  /\ LET sc == led.dtor[Top.o] IN
     IF sc.op = "none"
     THEN Commit(heap, led, ob, [ctl EXCEPT !.stack = ScriptBase])
     ELSE \/ ScriptOp(sc)
          \/ /\ ~ENABLED ScriptOp(sc)         \* precondition false: the script is skipped
             /\ Commit(heap, led, ob, [ctl EXCEPT !.stack = ScriptBase])

\* drop glue of the payload: strong handles in ascending target id, then Weak handles
StepValueFields ==
  /\ Running /\ Stack # <<>> /\ Top.pc = "value" /\ Top.ph = "fields"
  /\ LET o  == Top.o
         ts == {t \in Obj : led.valS[o][t] > 0}
         tw == {t \in Obj : led.valW[o][t] > 0}
     IN IF ts # {}
        THEN LET t  == MinOf(ts)
                 g2 == [led EXCEPT !.valS[o][t] = @ - 1]
             IN Commit(heap, g2, [ob EXCEPT !.must = @ \cup Demand(g2, ob, t), !.dcset = @ \cup DCSet(g2, ob, t)],
                       [ctl EXCEPT !.stack = <<Frame("drop", t)>> \o Stack])
        ELSE IF tw # {}
        THEN LET t == MinOf(tw) IN
             CommitHX(WeakDropHeap(heap, ob, t), [led EXCEPT !.valW[o][t] = @ - 1], ctl)
        ELSE \* value gone; in drop_cycle the member's table is the tuple's second field
             Commit(IF Top.tab THEN [heap EXCEPT !.tbl[o] = FALSE] ELSE heap, led,
                    RetTo(led, ob, Pop), [ctl EXCEPT !.stack = Pop])

-----------------------------------------------------------------------------
(* Next-state relation *)

En(op) == op \in Ops
AtTop  == Quiescent /\ Running

Call ==
  /\ AtTop
  /\ \/ En("New")         /\ \E d \in DtorMenu : OpNew(d, TRUE, <<>>)
     \/ En("CloneRoot")   /\ \E o \in Obj : OpCloneRoot(o, TRUE, <<>>)
     \/ En("CloneStored") /\ \E a, o \in Obj : OpCloneStored(a, o, TRUE, <<>>)
     \/ En("DowngradeStored") /\ \E a, o \in Obj : OpDowngradeStored(a, o, TRUE, <<>>)
     \/ En("IncStrongStored") /\ \E a, o \in Obj : OpIncStrongStored(a, o, TRUE, <<>>)
     \/ En("DropRoot")    /\ \E o \in Obj : OpDropRoot(o, TRUE, <<>>)
     \/ En("Store")       /\ \E a, o \in Obj : OpStore(a, o, TRUE, <<>>)
     \/ En("Take")        /\ \E a, o \in Obj : OpTake(a, o, TRUE, <<>>)
     \/ En("DropStored")  /\ \E a, o \in Obj : OpDropStored(a, o, TRUE, <<>>)
     \/ En("Adopt")       /\ \E a, b \in Obj : OpAdopt(a, b, TRUE, <<>>)
     \/ En("Unadopt")     /\ \E a, b \in Obj : OpUnadopt(a, b, TRUE, <<>>)
     \/ En("AdoptSame")   /\ \E a \in Obj : OpAdoptSame(a, TRUE, <<>>)
     \/ En("UnadoptSame") /\ \E a \in Obj : OpUnadoptSame(a, TRUE, <<>>)
     \/ En("AdoptStore")  /\ \E a, o \in Obj : OpAdoptStore(a, o, TRUE, <<>>)
     \/ En("Edge")        /\ \E a, o \in Obj : OpEdge(a, o, TRUE, <<>>)
     \/ En("TakeUnadopt") /\ \E a, o \in Obj : OpTakeUnadopt(a, o, TRUE, <<>>)
     \/ En("Downgrade")   /\ \E o \in Obj : OpDowngrade(o, TRUE, <<>>)
     \/ En("Upgrade")     /\ \E o \in Obj : OpUpgrade(o, TRUE, <<>>)
     \/ En("UpgradeStored") /\ \E a, o \in Obj : OpUpgradeStored(a, o, TRUE, <<>>)
     \/ En("WeakClone")   /\ \E o \in Obj : OpWeakClone(o, TRUE, <<>>)
     \/ En("WeakDrop")    /\ \E o \in Obj : OpWeakDrop(o, TRUE, <<>>)
     \/ En("StoreWeak")   /\ \E a, o \in Obj : OpStoreWeak(a, o, TRUE, <<>>)
     \/ En("TakeWeak")    /\ \E a, o \in Obj : OpTakeWeak(a, o, TRUE, <<>>)
     \/ En("TryUnwrap")   /\ \E o \in Obj : OpTryUnwrap(o, TRUE, <<>>)
     \/ En("GetMut")      /\ \E o \in Obj : OpGetMut(o, TRUE, <<>>)
     \/ En("MakeMut")     /\ \E o \in Obj : OpMakeMut(o, TRUE, <<>>)
     \/ En("MakeMutS")    /\ \E o \in Obj : OpMakeMutX("MakeMutS", o, TRUE, <<>>)
     \/ En("MakeMutP")    /\ \E o \in Obj : OpMakeMutX("MakeMutP", o, TRUE, <<>>)
     \/ En("IntoRaw")     /\ \E o \in Obj : OpIntoRaw(o, TRUE, <<>>)
     \/ En("FromRaw")     /\ \E o \in Obj : OpFromRaw(o, TRUE, <<>>)
     \/ En("IncStrong")   /\ \E o \in Obj : OpIncStrong(o, TRUE, <<>>)
     \/ En("WeakIntoRaw") /\ \E o \in Obj : OpWeakIntoRaw(o, TRUE, <<>>)
     \/ En("WeakFromRaw") /\ \E o \in Obj : OpWeakFromRaw(o, TRUE, <<>>)
     \/ En("DecStrong")   /\ \E o \in Obj : OpDecStrong(o, TRUE, <<>>)
     \/ En("DropDetached") /\ \E o \in Obj : OpDropDetached(o, TRUE, <<>>)
     \/ En("Misc")        /\ OpMisc(TRUE, <<>>)

Micro ==
  \/ StepDrop \/ StepOrphan \/ StepBust \/ StepMark \/ StepCycleDestroy \/ StepRelease
  \/ StepUninit \/ StepPostValue \/ StepValueEnter \/ StepValueScript \/ StepValueFields
  \/ StepValuePanic \/ StepUnwindSkip

Next == Call \/ Micro
Spec == Init /\ [][Next]_vars

-----------------------------------------------------------------------------
(* Properties C01 ... (state invariants; action properties are sticky flags) *)

\* a reachable object is intact (the allocation a call in progress is about to create is
\* exempt until it exists)
IntactReach(o) == \/ o = led.fresh /\ heap.mem[o] = "none"
                  \/ heap.mem[o] = "alloc" /\ heap.vinit[o] /\ ob.nd[o] = 0 /\ ob.nf[o] = 0
C01 == ~led.stale => \A o \in Reach : IntactReach(o)

\* scope: histories that respect the contract of adopt_unchecked (C01's precondition); what
\* happens after removing a recorded handle without unadopt is C13's subject
C02 == ~led.stale =>
       /\ ob.ub = {}
       /\ \A o \in Obj : ob.nd[o] <= 1 /\ ob.nf[o] <= 1

C03 == "C03" \notin ob.flags

C04 == /\ ob.badrel = 0      \* every block goes back with the layout it was allocated with
       /\ (Quiescent /\ ob.ub = {}) =>
            /\ ob.xblocks = 0
            /\ \A o \in Made(led) :
                (ob.nd[o] > 0 \/ led.gone[o]) /\ o \notin led.panicked =>
                   /\ ~heap.tbl[o]
                   /\ WeakHandles(o) = 0 => heap.mem[o] = "freed"
                   /\ WeakHandles(o) > 0 => heap.mem[o] = "alloc"

C05 == /\ "C05" \notin ob.flags
       /\ \A o \in Made(led) : WeakHandles(o) > 0 => heap.mem[o] = "alloc"
       /\ \A o \in Made(led) : ob.nd[o] > 0 /\ heap.mem[o] = "alloc" => heap.strong[o] \in {0, UNINIT}

C06 == UserPoint /\ ob.ub = {} =>
         \A o \in Made(led) :
           Intact(o) /\ ob.nd[o] = 0 /\ ~led.gone[o] =>
             /\ heap.strong[o] = Handles(o)
             /\ heap.weak[o] = 1 + WeakHandles(o)

TableImplied(a) ==
  [k \in Key |-> CASE k[1] = "F" -> led.rec[a][k[2]]
                   [] k[1] = "B" -> led.rec[k[2]][a]
                   [] k[1] = "L" -> IF k[2] = a THEN led.recL[a] ELSE 0]
C08 == Quiescent /\ ob.ub = {} =>
         \A a \in Made(led) :
           Intact(a) /\ ob.nd[a] = 0 /\ ~led.gone[a] => heap.links[a] = TableImplied(a)

C14 == "C14" \notin ob.flags

\* C15: every trace visits each object at most once and pops at most adoptions + 1 work items;
\* while a collected group is being destroyed, dropping a handle to a fellow member is inert
\* (it returns at the dead-check), so the destruction of a group of N objects never nests
C15 == /\ "C15" \notin ob.flags
       /\ \A i, j \in 1..Len(Stack) :
            i < j /\ Stack[j].pc = "cdestroy" /\ Stack[i].pc = "drop"
            /\ (\E k \in DOMAIN Stack[j].cyc : k[2] = Stack[i].o)
            => heap.mem[Stack[i].o] = "alloc" /\ heap.strong[Stack[i].o] \in {0, UNINIT}

\* C09: evaluated by the trace Monitor, which replays each script under several heap layouts
\* and compares, call by call, what was destroyed and everything observable afterwards
C09 == "C09" \notin ob.flags

\* C07: evaluated by the trace Monitor (differential against the real std::rc and against the
\* reference model StdRc.tla) and, on the specification, by MC.tla's lock-step invariant
C07flag == "C07" \notin ob.flags

C16 == "C16" \notin ob.flags

\* C11 (beyond C01/C02/C05): a single panicking destructor reaches the caller as a panic,
\* it does not abort the process
C11x == ctl.mode # "aborted" /\ "C11" \notin ob.flags

\* C13: after a recorded handle was removed without unadopt (and no adoption was ever
\* over-recorded by adopt itself), reachable objects stay intact and nothing illegal is touched
\* C13 with the known finding D-C excused: everything that is not a consequence of D-C
C13x == led.elided /\ ~led.over =>
          /\ \A e \in ob.ub : e[2] \in ob.dcset
          /\ \A o \in Reach : IntactReach(o) \/ o \in ob.dcset
C13 == led.elided /\ ~led.over =>
         /\ ob.ub = {}
         /\ \A o \in Reach : IntactReach(o)

\* C12: after try_unwrap / make_mut / get_mut / raw round trips / inc-dec on linked objects the
\* remaining graph is consistent: no table names a given-up allocation (C08 on the ledger,
\* where giving up an allocation voids its records), the given-up allocation and its table
\* are released (C04), counts stay exact (C06), no illegal access later (C02), and the value
\* was moved or cloned exactly once per call (flag set by the Monitor from payload counters)
C12 == C02 /\ C04 /\ C06 /\ C08 /\ "C12" \notin ob.flags

TypeOK ==
  /\ \A o \in Obj : heap.strong[o] >= UNINIT /\ heap.weak[o] >= 0
  /\ ctl.mode \in {"run", "aborted", "crashed", "unwind"}

=============================================================================
