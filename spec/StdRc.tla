-------------------------------- MODULE StdRc --------------------------------
(***************************************************************************)
(* Reference semantics of std::rc::Rc / std::rc::Weak (the library          *)
(* cactusref forked), written as a deterministic function of the call:      *)
(* StdApply(st, g, op, a, b) is the abstract state after the public call    *)
(* `op(a, b)` made in abstract state `st` by a program whose values hold    *)
(* the handles recorded in the ledger `g` (the same ledger CactusRef.tla    *)
(* keeps).  Destruction of a value drops the handles stored in it in the    *)
(* payload's field order (strong handles in ascending target id, then Weak  *)
(* handles), recursively, exactly as Rust's drop glue does.                 *)
(*                                                                          *)
(* Used in two ways (property C07):                                         *)
(*  - MC_std.cfg runs CactusRef with adoptions disabled and this reference  *)
(*    in lock step, and checks that the two agree at every return;          *)
(*  - traces recorded from the REAL std::rc by the harness are checked      *)
(*    against this module, so the reference itself is bound to the code.    *)
(***************************************************************************)
EXTENDS Integers, Sequences, FiniteSets

CONSTANT NObj
SObj == 1..NObj

Std0 == [alive  |-> [o \in SObj |-> FALSE],     \* the value exists (not destroyed, not moved out)
         strong |-> [o \in SObj |-> 0],
         weak   |-> [o \in SObj |-> 0],         \* Weak handles + 1 while strong > 0 or value dropping
         mem    |-> [o \in SObj |-> "none"],
         dlog   |-> <<>>,                        \* destruction order inside the current call
         ret    |-> "-"]

\* the handles a value holds, in drop order: <<"S", t>> ... then <<"W", t>> ...
RECURSIVE Rep(_, _)
Rep(x, n) == IF n <= 0 THEN <<>> ELSE <<x>> \o Rep(x, n - 1)
RECURSIVE FieldsFrom(_, _, _, _)
FieldsFrom(g, o, k, t) ==       \* k \in {"S","W"}; t: next target id
  IF t > NObj THEN (IF k = "S" THEN FieldsFrom(g, o, "W", 1) ELSE <<>>)
  ELSE Rep(<<k, t>>, IF k = "S" THEN g.valS[o][t] ELSE g.valW[o][t]) \o FieldsFrom(g, o, k, t + 1)
Fields(g, o) == FieldsFrom(g, o, "S", 1)

WeakDrop1(st, o) ==
  IF st.weak[o] = 1 THEN [st EXCEPT !.weak[o] = 0, !.mem[o] = "freed"]
  ELSE [st EXCEPT !.weak[o] = @ - 1]

RECURSIVE StrongDrop(_, _, _)
RECURSIVE DropAll(_, _, _)
\* Rc::drop of one strong handle to o
StrongDrop(st, g, o) ==
  IF st.strong[o] = 0 THEN st          \* cannot happen in std::rc; keeps the function total
  ELSE IF st.strong[o] > 1 THEN [st EXCEPT !.strong[o] = @ - 1]
  ELSE \* last strong handle: destroy the value (fields dropped in order), then the implicit weak
       LET s1 == [st EXCEPT !.strong[o] = 0, !.alive[o] = FALSE, !.dlog = Append(@, o)]
           s2 == DropAll(s1, g, Fields(g, o))
       IN WeakDrop1(s2, o)
DropAll(st, g, fs) ==
  IF fs = <<>> THEN st
  ELSE LET f == Head(fs)
           s1 == IF f[1] = "S" THEN StrongDrop(st, g, f[2]) ELSE WeakDrop1(st, f[2])
       IN DropAll(s1, g, Tail(fs))

Upgradable(st, o) == st.mem[o] = "alloc" /\ st.strong[o] > 0

StdApply(st0, g, op, a, b) ==
  LET st == [st0 EXCEPT !.dlog = <<>>, !.ret = "-"] IN
  CASE op = "New" ->
         [st EXCEPT !.alive[a] = TRUE, !.strong[a] = 1, !.weak[a] = 1, !.mem[a] = "alloc", !.ret = "ok"]
    [] op = "CloneRoot"   -> [st EXCEPT !.strong[a] = @ + 1, !.ret = "ok"]
    [] op = "CloneStored" -> [st EXCEPT !.strong[b] = @ + 1, !.ret = "ok"]
    [] op = "DropRoot"    -> [StrongDrop(st, g, a) EXCEPT !.ret = "unit"]
    [] op = "DropStored"  -> [StrongDrop(st, g, b) EXCEPT !.ret = "unit"]
    [] op \in {"Store", "Take", "StoreWeak", "TakeWeak"} -> [st EXCEPT !.ret = "ok"]
    [] op = "Downgrade"   -> [st EXCEPT !.weak[a] = @ + 1, !.ret = "ok"]
    [] op = "Upgrade" ->
         IF Upgradable(st, a) THEN [st EXCEPT !.strong[a] = @ + 1, !.ret = "some"]
         ELSE [st EXCEPT !.ret = "none"]
    [] op = "UpgradeStored" ->
         IF Upgradable(st, b) THEN [st EXCEPT !.strong[b] = @ + 1, !.ret = "some"]
         ELSE [st EXCEPT !.ret = "none"]
    [] op = "WeakClone"   -> [st EXCEPT !.weak[a] = @ + 1, !.ret = "ok"]
    [] op = "WeakDrop"    -> [WeakDrop1(st, a) EXCEPT !.ret = "ok"]
    \* try_unwrap: Ok(value) iff this is the only strong handle; the value moves to the caller
    [] op = "TryUnwrap" ->
         IF st.strong[a] = 1
         THEN [WeakDrop1([st EXCEPT !.strong[a] = 0, !.alive[a] = FALSE], a) EXCEPT !.ret = "ok"]
         ELSE [st EXCEPT !.ret = "err"]
    \* get_mut: Some iff no other strong and no Weak handle
    [] op = "GetMut" ->
         [st EXCEPT !.ret = IF st.strong[a] = 1 /\ st.weak[a] = 1 THEN "some" ELSE "none"]
    \* make_mut on a handle to a; b is the id of the allocation the handle points to afterwards
    [] op \in {"MakeMut", "MakeMutS", "MakeMutP"} ->
         IF st.strong[a] # 1 /\ op = "MakeMutP"
         THEN \* the payload's Clone panics: nothing changes
              [st EXCEPT !.ret = "cpanic"]
         ELSE IF st.strong[a] # 1
         THEN \* other strong handles: clone the value into a fresh allocation b
              \* (MakeMutS: the payload's Clone does not re-share the stored handles)
              LET k  == IF op # "MakeMutS" THEN 1 ELSE 0
                  s1 == [st EXCEPT !.alive[b] = TRUE, !.strong[b] = 1, !.weak[b] = 1, !.mem[b] = "alloc",
                                   !.strong = [t \in SObj |-> IF t = b THEN 1 ELSE @[t] + k * g.valS[a][t]],
                                   !.weak   = [t \in SObj |-> IF t = b THEN 1 ELSE @[t] + k * g.valW[a][t]]]
              IN [s1 EXCEPT !.strong[a] = @ - 1, !.ret = "cloned"]
         ELSE IF st.weak[a] # 1
         THEN \* only Weak handles besides us: move the value into a fresh allocation b
              LET s1 == [st EXCEPT !.alive[b] = TRUE, !.strong[b] = 1, !.weak[b] = 1, !.mem[b] = "alloc",
                                   !.strong[a] = 0, !.alive[a] = FALSE]
              IN [WeakDrop1(s1, a) EXCEPT !.ret = "moved"]
         ELSE [st EXCEPT !.ret = "unique"]
    [] op \in {"IntoRaw", "FromRaw", "WeakIntoRaw", "WeakFromRaw"} -> [st EXCEPT !.ret = "ok"]
    [] op = "IncStrong" -> [st EXCEPT !.strong[a] = @ + 1, !.ret = "ok"]
    [] op = "DecStrong" -> [StrongDrop(st, g, a) EXCEPT !.ret = "unit"]
    [] op = "DropDetached" ->
         \* the caller drops a value obtained from try_unwrap: its destructor and fields
         [DropAll([st EXCEPT !.dlog = Append(@, a)], g, Fields(g, a)) EXCEPT !.ret = "unit"]
    [] op = "Misc" -> [st EXCEPT !.ret = "same"]
    [] OTHER -> st

\* what the public API lets a program observe of an abstract state
StdView(st) ==
  [sc   |-> [o \in SObj |-> IF st.mem[o] = "alloc" THEN st.strong[o] ELSE 0],
   wc   |-> [o \in SObj |-> IF st.mem[o] = "alloc" /\ st.strong[o] > 0 THEN st.weak[o] - 1 ELSE 0],
   live |-> [o \in SObj |-> st.alive[o]],
   mem  |-> st.mem,
   dlog |-> st.dlog,
   ret  |-> st.ret]
=============================================================================
